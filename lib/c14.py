"""C14 — every IDL in the supported grammar generates Rust that compiles (programs x configurations).

The builder runs in a child process per (document, configuration); the emitted files are included
as modules of one crate that is `cargo check`ed against the real pilota runtime; a failing crate is
narrowed to the offending modules through the rustc diagnostics (which name the generated file)."""
import json, os, re, subprocess, time, shutil, itertools
from concurrent.futures import ThreadPoolExecutor
import vlib, corpus, gen
from vlib import ROOT, WORK, die

ALL_CFGS = ["s%dk%dc%du%d" % t for t in itertools.product((0, 1), (0, 1), (1, 0), (0, 1))]
QUICK_CFGS = ["s0k0c1u0", "s1k1c1u0", "s0k0c0u0", "s0k1c1u1"]


def cfg_flags(cfg):
    f = []
    if cfg[1] == "1":
        f.append("--split")
    if cfg[3] == "1":
        f.append("--keep")
    if cfg[5] == "0":
        f.append("--no-change-case")
    if cfg[7] == "1":
        f.append("--ignore-unused")
    return f


def mask(msg):
    msg = re.sub(r"`[^`]*`", "_", msg)
    msg = re.sub(r"\d+", "#", msg)
    return msg[:110]


def documents(tier):
    docs = corpus.thrift_stress() + corpus.sem_as_raw()
    try:
        docs += corpus.proto_docs_raw()
    except AttributeError:
        pass
    if tier == "quick":
        # one representative per construct label in the quick tier, all in the thorough tier
        seen, out = set(), []
        for d in docs:
            # (all documents of the prelude-name label: its recorded finding sits in the third one)
            if d.label not in seen or d.label.startswith("std-prelude-names"):
                seen.add(d.label)
                out.append(d)
        return out
    return docs


def run_jobs(docs, cfgs, base):
    vgen = gen.ensure_vgen()
    idl_dir, out_dir = os.path.join(base, "idl"), os.path.join(base, "out")
    corpus.write_raw(docs, idl_dir)
    jobs = [(d, c) for d in docs for c in cfgs if not (d.mode == "proto" and c[3] == "1")]

    def one(job):
        d, c = job
        # one output directory per (document, configuration): split mode writes sibling files
        out = os.path.join(out_dir, "%s__%s" % (d.name, c), "gen.rs")
        main = os.path.join(idl_dir, d.name, d.main)
        flags = [f for f in cfg_flags(c) if not (d.mode == "proto" and f == "--keep")]
        if d.dedup:
            flags += ["--dedup", ",".join(d.dedup)]
        for rel, items in getattr(d, "touch", {}).items():
            flags += ["--touch", "%s:%s" % (os.path.join(idl_dir, d.name, rel), ",".join(items))]
        flags += [f for f in getattr(d, "flags", []) if f not in flags]
        inc = [os.path.join(idl_dir, d.name)] if d.mode == "proto" else []
        t0 = time.time()
        rc, log = gen.run_builder(vgen, d.mode, [main], out, flags, include_dirs=inc, timeout=60)
        return d, c, rc, log, time.time() - t0, out

    with ThreadPoolExecutor(max_workers=vlib.NCPU) as ex:
        return list(ex.map(one, jobs))


CHECK_TOML = """[package]
name = "c14crate"
version = "0.1.0"
edition = "2021"

[workspace]

[dependencies]
pilota = { path = "/repo/pilota" }

[profile.dev]
opt-level = 0
debug = 0
incremental = true
codegen-units = 64
"""


def cargo_check(crate_dir, modules):
    os.makedirs(os.path.join(crate_dir, "src"), exist_ok=True)
    os.makedirs(os.path.join(crate_dir, ".cargo"), exist_ok=True)
    # a package name of its own per check crate: same-named packages sharing one target directory
    # can be taken for each other by cargo's freshness check
    pkg = "c14crate_" + re.sub(r"\W", "_", os.path.basename(os.path.dirname(os.path.abspath(crate_dir))))
    gen.write_if_changed(os.path.join(crate_dir, "Cargo.toml"), CHECK_TOML.replace('name = "c14crate"', 'name = "%s"' % pkg))
    gen.write_if_changed(os.path.join(crate_dir, ".cargo", "config.toml"),
                         "[net]\noffline = true\n[build]\ntarget-dir = \"%s\"\n" % gen.GEN_TARGET)
    lock = os.path.join(crate_dir, "Cargo.lock")
    if not os.path.exists(lock):
        shutil.copy("/repo/Cargo.lock", lock)
    body = "#![allow(warnings)]\n" + "\n".join('pub mod %s { include!("%s"); }' % (m, p) for m, p in modules) + "\n"
    gen.write_if_changed(os.path.join(crate_dir, "src", "lib.rs"), body)
    p = subprocess.run(["cargo", "check", "--offline", "--message-format=short"], cwd=crate_dir, env=vlib.ENV,
                       stdout=subprocess.PIPE, stderr=subprocess.STDOUT, text=True)
    return p.returncode, p.stdout


ERR_RE = re.compile(r"^(/\S+?/out/([\w\-]+?__s\dk\dc\du\d)/[^:]*):\d+:\d+: error(?:\[(E\d+)\])?: (.*)$")


def check_modules(base, modules):
    """returns {module: [(code, msg)]} for modules that do not compile"""
    crate = os.path.join(base, "crate")
    bad = {}
    live = list(modules)
    for attempt in range(12):
        rc, out = cargo_check(crate, live)
        if rc == 0:
            return bad, None
        found = {}
        for line in out.splitlines():
            m = ERR_RE.match(line)
            if m:
                found.setdefault(m.group(2), []).append((m.group(3) or "E?", m.group(4)))
        found = {k: v for k, v in found.items() if any(k == m for m, _ in live)}
        if not found:
            return bad, out[-4000:]
        bad.update(found)
        live = [(m, p) for m, p in live if m not in found]
    return bad, "still failing after 12 rounds"


def run(tier, seed):
    import checks
    t0 = time.time()
    base = os.path.join(WORK, "gen", "c14")
    docs = documents(tier)
    cfgs = QUICK_CFGS if tier == "quick" else ALL_CFGS
    results = run_jobs(docs, cfgs, base)
    m = {"evaluations": 0, "nontrivial": 0, "states": set(), "transitions": set(), "outcomes": {}, "samples": [],
         "failures": {}, "caps": [], "spaces": {}, "counters": {}, "notes": [], "cases_enumerated": len(results)}

    def fail(sig, case, detail):
        g = m["failures"].setdefault(sig, {"sig": sig, "count": 0, "first_index": 0, "case": case, "detail": detail})
        g["count"] += 1

    modules = []
    by_module = {}
    for d, c, rc, log, secs, out in results:
        m["evaluations"] += 1
        m["spaces"][d.label] = m["spaces"].get(d.label, 0) + 1
        case = {"doc": d.name, "cfg": c, "mode": d.mode, "label": d.label}
        if rc != 0:
            m["outcomes"]["builder-failed"] = m["outcomes"].get("builder-failed", 0) + 1
            msgs = [l for l in log.splitlines() if "panicked at" in l or l.startswith("Error") or "TIMEOUT" in l]
            nxt = ""
            for i, l in enumerate(log.splitlines()):
                if "panicked at" in l:
                    nxt = log.splitlines()[i + 1] if i + 1 < len(log.splitlines()) else ""
                    break
            what = "timeout" if rc == -999 else mask(nxt or (msgs[0] if msgs else "exit %s" % rc))
            fail("C14|builder|%s|%s" % (what, d.label), case, (nxt or log[-400:])[:400])
            continue
        if secs > 60:
            fail("C14|builder|slow|%s" % d.label, case, "%.1fs" % secs)
        size = os.path.getsize(out) if os.path.exists(out) else 0
        if size > 200:
            m["nontrivial"] += 1
        mod = "%s__%s" % (d.name, c)
        modules.append((mod, out))
        by_module[mod] = (d, c)
        if len(m["samples"]) < 8 and m["evaluations"] % 17 == 1:
            m["samples"].append({"document": d.name, "configuration": c, "label": d.label, "generated_bytes": size})
    # documents of constructs with a recorded compile failure are type-checked in a crate of their
    # own: the big crate then compiles in one pass (a no-op when nothing changed) instead of being
    # re-checked once per round of dropped modules
    known = vlib.load_known()
    texts = [str(f.get("signature", "")) + str(f.get("signature_regex", "")) for f in known.get("findings", [])
             if f.get("status", "open") == "open" and "C14" in str(f.get("property", ""))]
    suspect = lambda mod: any(by_module[mod][0].label in t for t in texts)
    bad, err = check_modules(base, [(m_, p) for m_, p in modules if not suspect(m_)])
    if err:
        print(err)
        die("C14: the check crate fails and no generated module is named by the diagnostics")
    side = [(m_, p) for m_, p in modules if suspect(m_)]
    if side:
        # one small crate per document (a failing crate is re-checked once per round of dropped
        # modules, and rounds of different documents are independent), checked in parallel
        groups = {}
        for m_, p in side:
            groups.setdefault(by_module[m_][0].name, []).append((m_, p))

        def one_group(item):
            dn, mods_ = item
            return check_modules(os.path.join(base, "side_" + dn), mods_)

        with ThreadPoolExecutor(max_workers=min(len(groups), vlib.NCPU)) as ex:
            outs = list(ex.map(one_group, sorted(groups.items())))
        for bad2, err in outs:
            if err:
                print(err)
                die("C14: a side check crate fails and no generated module is named by the diagnostics")
            bad.update(bad2)
    m["evaluations"] += len(modules)
    for mod, errs in bad.items():
        d, c = by_module[mod]
        code, msg = errs[0]
        m["outcomes"]["does-not-compile"] = m["outcomes"].get("does-not-compile", 0) + 1
        fail("C14|compile|%s:%s|%s" % (code, mask(msg), d.label), {"doc": d.name, "cfg": c, "mode": d.mode, "label": d.label},
             "; ".join("%s %s" % e for e in errs[:4])[:600])
    m["outcomes"]["compiles"] = len(modules) - len(bad)
    m["counters"] = {"documents": len(docs), "configurations": len(cfgs), "builder_runs": len(results), "modules_type_checked": len(modules)}
    return checks.verdict("C14", tier, seed, checks.CHECKS["C14"], m, time.time() - t0, 0.0)


def replay(path):
    r = json.load(open(path))
    case = r["case"]
    tier = r.get("tier", "quick")
    docs = [d for d in documents("thorough") if d.name == case["doc"]]
    if not docs:
        die("unknown document " + case["doc"])
    base = os.path.join(WORK, "gen", "c14_replay")
    res = run_jobs(docs, [case["cfg"]], base)
    d, c, rc, log, secs, out = res[0]
    if rc != 0:
        print(log[-1500:])
        print("OBSERVED builder exit status %s" % rc)
        if "|builder|" in r["sig"]:
            print("REPRODUCED " + r["sig"])
            return 1
        return 0
    bad, err = check_modules(base, [("%s__%s" % (d.name, c), out)])
    for mod, errs in bad.items():
        for e in errs[:6]:
            print("OBSERVED %s: %s %s" % (mod, e[0], e[1]))
    if bad and "|compile|" in r["sig"]:
        print("REPRODUCED " + r["sig"])
        return 1
    print("NOT-REPRODUCED " + r["sig"])
    return 0

#!/usr/bin/env python3
"""Maintainer tool (never run by a check): re-records the exact signature lists of the two recorded
findings that have many manifestations, from quick+thorough runs on the CURRENT (unchanged) tree.
Needed after the corpus or the payload sets change. usage: lib/refresh_known.py uv | arg [--quick-only]"""
import json, subprocess, sys, os
ROOT = os.path.dirname(os.path.dirname(os.path.abspath(__file__)))
which = sys.argv[1]
tiers = ["quick"] if "--quick-only" in sys.argv else ["quick", "thorough"]
tag, checks = {"uv": ("[union-variant-type]", ["C08"]), "arg": ("[arg-type+retention]", ["C02", "C04", "C09", "C11", "C13", "C19"])}[which]
sigs = set()
for c in checks:
    for t in tiers:
        subprocess.run(["./verif", "check", c, "--tier", t], cwd=ROOT, stdout=subprocess.DEVNULL, stderr=subprocess.DEVNULL)
        e = json.load(open(os.path.join(ROOT, "evidence", c + ".json")))
        new = [k for k in e["coverage"]["failing_signatures"] if tag in k]
        print(c, t, len(new))
        sigs |= set(new)
k = json.load(open(os.path.join(ROOT, "known_findings.json")))
for f in k["findings"]:
    if any(tag in s for s in f.get("signatures", [])):
        old = set(f["signatures"])
        f["signatures"] = sorted(old | sigs) if "--quick-only" in sys.argv else sorted(sigs)
        print("recorded", len(f["signatures"]), "added", len(sigs - old), "dropped", len(old - set(f["signatures"])))
json.dump(k, open(os.path.join(ROOT, "known_findings.json"), "w"), indent=1)

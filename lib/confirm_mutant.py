#!/usr/bin/env python3
"""Confirms a sub-agent's seeded change in its scratch worktree: the patch applies, the repository's
suite still passes with it (the two network tests aside), the demonstration passes without and
fails with the patch. usage: confirm_mutant.py /tmp/mut[2345678]/C05"""
import json, os, re, subprocess, sys

wt = sys.argv[1].rstrip("/")
mut = os.path.join(wt, "MUTANT")
env = dict(os.environ, CARGO_NET_OFFLINE="true")


def sh(cmd, cwd=wt, timeout=3600):
    p = subprocess.run(cmd, shell=True, cwd=cwd, env=env, stdout=subprocess.PIPE, stderr=subprocess.STDOUT, text=True, timeout=timeout)
    return p.returncode, p.stdout


howto = open(os.path.join(mut, "demo", "HOWTO.txt")).read()
cmds = []
for line in howto.splitlines():
    l = line.strip()
    if re.match(r"^(mkdir -p|cp |cd /tmp/mut[2345678])", l) and "rm -rf" not in l:
        cmds.append(l)
setup = [c for c in cmds if not c.startswith("cd ")]
tests = [c for c in cmds if c.startswith("cd ") and "cargo" in c]
res = {"worktree": wt, "setup": setup, "test_cmd": tests[:1]}
rc, out = sh("git status --porcelain")
res["dirty_before"] = [l for l in out.splitlines() if "MUTANT" not in l]
for c in setup:
    sh(c)
rc0, out0 = sh(tests[0])
res["demo_without_patch"] = {"exit": rc0, "tail": [l for l in out0.splitlines() if l.startswith("test result") or "FAILED" in l][-4:]}
rc, out = sh("git apply MUTANT/patch.diff")
res["apply"] = rc
rc1, out1 = sh(tests[0])
res["demo_with_patch"] = {"exit": rc1, "tail": [l for l in out1.splitlines() if l.startswith("test result") or "FAILED" in l or "panicked" in l][-6:]}
# the suite, with the demo files moved out of the way (they are not part of the suite)
sh("git stash -u -- . ':!MUTANT' >/dev/null 2>&1; git stash drop >/dev/null 2>&1; git apply MUTANT/patch.diff")
rc2, out2 = sh("cargo test --workspace --no-fail-fast --offline")
failed = sorted(set(re.findall(r"^test (\S+) \.\.\. FAILED", out2, re.M)))
res["suite_with_patch"] = {"exit": rc2, "failed_tests": failed, "results": [l for l in out2.splitlines() if l.startswith("test result")]}
sh("git checkout -- . ; git clean -fdq -e MUTANT -e target")
ok = (rc0 == 0 and rc1 != 0 and res["apply"] == 0 and
      all(f in ("test::test_thrift_workspace_gen", "test::test_thrift_workspace_with_split_gen") for f in failed))
res["confirmed"] = ok
json.dump(res, open(os.path.join(mut, "confirm.json"), "w"), indent=1)
print(os.path.basename(wt), "CONFIRMED" if ok else "NOT CONFIRMED", res["demo_without_patch"]["exit"], res["demo_with_patch"]["exit"], failed)

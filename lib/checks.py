"""Check table, verdict logic, evidence writing."""
import json, os, sys, time, subprocess, re
import vlib
from vlib import ROOT, WORK, die

# ---------------------------------------------------------------------------------------------
# per-check static description (what is enumerated, what counts as non-trivial, assumptions)

CHECKS = {
    "C01": dict(
        engine="vrt", level="model_checking", quick_cap=240, thorough_cap=3600,
        rule=("Every Val of: (a) all shapes of nesting depth<=2 (full product over depth-1 shapes: struct width<=2, "
              "lists/sets of 1,2 (and 14,15,16 at depth 1) elements, all map key x value shapes; thorough adds width 3 at "
              "depth 1 and every depth-2 shape wrapped once more = depth 3); (b) scalar sweeps (all i8, i16 boundaries or all "
              "i16, i32/i64 +-2^k+-1, 40 double bit patterns, payload lengths around 128/4096/16384) in 5 contexts; (c) all "
              "ordered field-id pairs of a 13-id set x all leaf-kind pairs, nested-struct id patterns; (e) lists/sets of 65535, 65536, 65537 "
              "[70000, 131073] one-byte strings / empty structs / empty lists and maps of 32767..32769 entries, bare and as a field; (f) lists, "
              "sets and maps of 63, 64, 127, 128 [8191, 8192, 16383, 16384] elements (varint vs zigzag-varint width boundaries of a "
              "count); (d) all ordered pairs "
              "(thorough: triples) of depth<=1 shapes written back to back through ONE writer and read through ONE reader; "
              "each x {binary, binary-LE, compact, unchecked} x {BytesMut, LinkedBytes, LinkedBytes zero-copy} x bin/string "
              "API pairs x {plain, generated-code-like} reader call sequences. distinct_nontrivial = distinct cases with >=2 "
              "nodes, >1 value, or a multi-byte scalar."),
        assumptions=["dev profile with debug assertions and overflow checks on (the profile the repository's tests use)",
                     "values outside the stated alphabets/bounds are not covered",
                     "states/transitions are abstract states of the real codec objects: (open-struct depth<=3, enclosing "
                     "container kind, previous op) x (op, field-id delta class/size class); every transition was executed on "
                     "the real code"],
    ),
    "C03": dict(
        engine="vrt", level="exploration", quick_cap=240, thorough_cap=3600,
        rule=("Both directions against reference codecs written from the Apache binary/compact specs (self-checked against "
              "spec vectors): pilota->reference over the C01 value spaces (a)(b)(c) on {binary, compact, unchecked(binary wire)}; "
              "reference->pilota with every legal alternative encoding explored by a deviation-bounded explorer (long-form compact "
              "field header at any field, any non-zero byte for binary true from {1,2,0x7f,0x80,0xfe,0xff}, bool element type "
              "code 1 or 2 in compact containers; bound 1 quick / 2 thorough); message envelopes (5 name lengths x 4 types x all "
              "i32 boundary seqids) both directions; TApplicationException kinds -1..12 and extremes, with unknown fields and "
              "reordered fields; every out-of-spec type byte (all 256 binary codes / nibbles 14,15 and stop-as-element in compact) "
              "in every field/element/key/value type position of every shape of depth<=1(+wrappers) [<=2 thorough] must make typed "
              "read and skip fail. distinct_nontrivial as in C01."),
        assumptions=["the reference codecs are the oracle; they are validated at engine start against byte vectors that do not "
                     "come from pilota (Apache compact test vectors, protobuf varint/zigzag tables) and by encode/decode identity",
                     "not treated as legal alternatives: pre-strict binary header, 0 as false for compact elements, non-minimal "
                     "varints, out-of-spec element type in an EMPTY container (unobservable)"],
    ),
    "C04": dict(
        engine="vrt", parts=["vrt", "gen:tsem"], level="model_checking", quick_cap=240, thorough_cap=3600,
        rule=("Runtime level: the C01 value spaces (a)(b)(c) (shapes to depth 2 [3 thorough], scalar sweeps in 5 contexts, all "
              "field-id neighbour pairs and nested id patterns) x {binary, binary-LE, compact, unchecked} x 3 buffer kinds x "
              "bin/string APIs x {primitive calls, *_field helper calls}; the writer and a separate TLengthProtocol instance are "
              "driven in lockstep and the running sums compared after EVERY op; plus message envelopes (6 name lengths x 4 types x "
              "all i32 boundary seqids). Generated level: every (type, value) case of the C02 corpus x {keep off,on}: T::size(&mut p) vs the number of bytes T::encode writes on all 4 protocols (unchecked: into a window of exactly size() bytes with painted slack). distinct_nontrivial "
              "as in C01."),
        assumptions=["dev profile with overflow checks", "states/transitions as in C01 are not re-reported here: the evidence "
                     "counts lockstep ops compared (counters.ops)"],
        coverage_extra={},
    ),
    "C07": dict(
        engine="vrt", level="exploration", quick_cap=240, thorough_cap=3600,
        rule=("Every value of the C01 spaces (a) shapes to depth 2 [3 thorough] and (b) scalar sweeps incl. uuid, empty and "
              "15/16-element containers, maps with fixed and variable entries, encoded by the reference encoder and followed by "
              "{nothing, one stray byte, a complete second struct with delta-encoded ids that is then decoded by the SAME reader}; "
              "readers {binary, binary-LE, compact, unchecked(iterative)} sync (top-level skip and skip of a field inside a struct "
              "followed by a sibling field) and {async binary, async binary-LE, async compact} (deliver-all; thorough adds one "
              "byte per poll); nesting depth d of structs, lists and maps for d in {1,2,3,32,63,64,65,66,80} [every d in 1..80 "
              "thorough]: d<=64 must skip exactly, d>64 must return DepthLimit (iterative unchecked skipper: exact skip or "
              "DepthLimit). Every case is non-trivial (the oracle compares the returned count and the consumed bytes with the "
              "reference length)."),
        assumptions=["reference encoder defines the value's length", "depth counts values entered, leaf included"],
    ),
    "C09": dict(
        engine="vrt", parts=["vrt", "gen:tsem"], level="fault_enumeration", quick_cap=280, thorough_cap=3600,
        rule=("Runtime level. Seeds = reference encodings of all depth<=1 shapes, their depth-2 wrappers [thorough: all depth<=2 "
              "shapes] and payload/length-boundary values, per wire protocol {binary, binary-LE, compact}. Faults enumerated "
              "completely per seed: every truncation length; every annotated length/count/field-id/type position overwritten with "
              "each of {-1,0,1,rem-1,rem,rem+1,2^31-1,2^31-16,2^24,-2^31} for lengths and {-1,0,1,rem-1,rem,rem+1,2^22,2^20,2^16,-2^31} for element counts (own integer encoding; compact additionally over-long "
              "and unterminated varints) resp. 7 field ids resp. 18 type bytes; every single-bit flip (seeds <=12 bytes quick, all "
              "thorough); plus ALL byte strings of length<=2 and all strings of length 3..4 [5] over a 12-byte alphabet, each read "
              "as struct/list/map/binary/set/i32; nesting 65, 66, 100, 5000 and 200 000 deep through struct fields, list / set elements, "
              "map values and map keys (skip and async skip must answer with an error). Targets: typed reads (plain and generated-code-like call sequence, all four "
              "binary/string APIs), skip, async typed read and async skip. Oracle: Ok or Err; no panic, no dead worker, <2 s, bytes "
              "requested from the allocator <= 64 KiB + 1024 x input length, every strict prefix rejected. distinct_nontrivial = "
              "distinct (protocol, type, bytes) fault inputs. Generated-code level (every generated type of the semantic corpus, "
              "retention off/on): seeds = a rich value, a minimal value and the rich value with every string/binary stretched to 40 "
              "[300, 5000] bytes; the same truncations, annotated overwrites and bit flips (for encodings longer than 1500 bytes: every "
              "truncation within the first and last 256 bytes and around every annotated position plus every (len/512)th, flips "
              "within the first and last 128 bytes and at annotated positions); sync and async decode; recursive types "
              "nested up to the depth at which the worker dies (recorded finding)."),
        assumptions=["the allocator window includes the harness's own Val tree (<= ~100 bytes per input byte), which the budget "
                     "covers", "async readers are driven with the deliver-everything schedule here; schedules are C12's subject"],
    ),
    "C11": dict(
        engine="vrt", parts=["vrt", "gen:tsem"], level="exploration", quick_cap=280, thorough_cap=3600,
        rule=("Runtime level. The C01 value spaces (a)(b)(c) (shapes to depth 2 + narrow depth 3 [full depth 3 thorough], scalar "
              "sweeps with payloads on both sides of 4096, field-id neighbourhoods) and (d) back-to-back pairs. Writer: the "
              "unchecked writer gets a window of exactly the reported size (+64 painted sentinel bytes) over BytesMut, LinkedBytes "
              "and LinkedBytes zero-copy, all four binary/string APIs; its bytes must equal the CHECKED binary writer's, the size "
              "must equal the checked length, nothing outside the window may change. Reader: the checked writer's bytes are "
              "placed so that they end at a PROT_NONE guard page and decoded by the unchecked reader (plain and generated-like call "
              "sequences): values and consumed bytes must equal the checked reader's; an out-of-bounds read kills the worker and "
              "is attributed to the case. Skip: the unchecked skipper skips the value as the LAST field of a struct that ends at "
              "the guard page. Generated-code level (unknown fields skipped/retained): see the generated half when built."),
        assumptions=["precondition-violating inputs (truncated/corrupt) are outside the property", "out-of-bounds WRITES inside the "
                     "allocation but beyond the window are detected by the painted sentinel; writes beyond the allocation are UB "
                     "and not guaranteed to be observed (thorough tier of the generated half adds valgrind)"],
    ),
    "C12": dict(
        engine="vrt", parts=["vrt", "gen:tsem"], level="model_checking", quick_cap=280, thorough_cap=3600,
        rule=("[every valid input is also skipped as an unknown field (header, skip, field end, next header) through the async reader under the three extreme schedules and compared with the in-memory reader; bool-field-then-bool-container shapes included] "
              "Runtime level. Inputs per wire protocol {binary, binary-LE, compact}: reference encodings of all depth<=1 shapes "
              "(+15-element containers), their depth-2 wrappers and boundary scalars as struct fields, each followed by 16 trailing "
              "bytes; every truncation of every encoding <=40 bytes; every length/count position overwritten with "
              "{-1,0,1,rem-1,rem+1,2^31-1}. Environment: every poll_read of the scripted stream is a choice point {deliver all "
              "requested, deliver 1 byte, Pending (never twice in a row)} explored by the deviation-bounded explorer: ALL schedules "
              "for messages <=9 [12] bytes (faulty inputs <=6), otherwise all schedules with <=1 [2] deviations, plus the three "
              "extreme schedules (all, one byte per poll, Pending before every delivery). Oracle per schedule: async outcome == "
              "sync outcome (same value, Err whenever sync is Err), bytes taken from the stream == message length (never the "
              "trailing bytes), the future never returns Pending unless the stream did. states = (stream offset<=255, previous "
              "answer), transitions = states x (answer, bytes requested)."),
        assumptions=["hand-written single-thread executor with a no-op waker; the stream wakes itself when it answers Pending",
                     "inputs on which the sync decoder panics belong to C09 and are skipped (none after the fixes)"],
    ),
    "C02": dict(
        engine="gen:tsem", level="exploration", quick_cap=280, thorough_cap=3600,
        rule=("Programs: the semantic Thrift corpus of lib/corpus.py (7 documents, ~75 declared and synthesised types: scalars in "
              "every requiredness, field-id boundary sets ascending and descending, containers of every base type incl. depth 3, "
              "enums/structs/unions/exceptions/typedefs in field, list, set, map-key and map-value position, recursive and mutually "
              "recursive types, every kind of default literal, pilota.rust_type / rust_wrapper_arc annotations, service "
              "argument/result/exception types) compiled by the real pilota-build in a child process per document under "
              "{keep_unknown_fields off, on}. Inputs per type: the minimal value, each field alone over its alphabet (4-5 boundary "
              "members per scalar, containers empty/1/2/15/16 elements, every enum member and unknown numbers, every union variant), "
              "all fields present (two variants), every adjacent pair. Each value is encoded by the reference encoder, decoded by "
              "the generated decode (sync on 4 protocols incl. unchecked at a guard page, async on 3), re-encoded by the generated "
              "encode on all 4 protocols and decoded by the reference decoder; oracle: equal to the input with absent "
              "default-bearing fields filled from the IDL (defaults computed by the corpus generator), sets/maps compared as "
              "multisets, all bytes consumed. distinct_nontrivial = (type, value) cases."),
        assumptions=["values of generated types are only obtained by decoding and only inspected by encoding (no reflection)",
                     "modules whose generated code does not compile are dropped from this check and reported by C14 (listed in "
                     "engine_info.dropped_modules)"],
    ),
    "C20": dict(
        engine="gen:tsem", level="exploration", quick_cap=280, thorough_cap=3600,
        rule=("Every generated struct of the semantic corpus (all requiredness kinds x 30 default literal kinds: ints of every "
              "width, bools from true/false and from 0/1, doubles from ints and decimals, strings, binary, enum members by name and "
              "number, constants by reference, enum-to-int, empty and non-empty list/set/map literals, [] for a map, typedef'd "
              "targets, nested struct literals) x {keep off,on}: encode(T::default()) on 4 protocols, decoded by the reference "
              "decoder, must equal the default value computed from the IDL by the corpus generator (present for every "
              "default-bearing field, empty value for required fields without default, absent otherwise); must equal "
              "decode(empty struct) re-encoded whenever that decode succeeds. distinct_nontrivial = structs checked."),
        assumptions=["expected defaults come from lib/corpus.py, not from pilota"],
    ),
    "C08": dict(
        engine="gen:tsem", level="exploration", quick_cap=280, thorough_cap=3600,
        rule=("Reader schemas = every struct and union of the semantic corpus (keep off). Writer values = the reader's minimal and "
              "rich value (unions: up to 4 variants) with every single edit: an unknown field of each of 43 payloads (every wire type; empty and zero values at every level; maps/lists of structs that contain structs with variable-size fields; every wire "
              "type incl. nested struct, containers of structs/doubles, 300-byte binary) at every position (first/middle/last for "
              "wide structs in quick) with ids below / between / above the declared ones; each field removed; each field retyped "
              "to every other wire type; all field permutations (<=4 fields; reversal and rotation beyond); unknown fields inside "
              "nested known structs; unions: two known variants, an unknown variant alone (12 payloads), nothing, the variant "
              "retyped. x 4 sync protocols (unchecked at a guard page) + 3 async. Oracle = a reference tolerant reader over dynamic "
              "values: known (id, wire type) pairs decode identically, everything else is ignored, missing required => error, "
              "union with 0 known variants => error unless it is a void result, >1 => error; defaults filled."),
        assumptions=["retyping of an ELEMENT type inside a container is outside the statement and not generated",
                     "the reference tolerant reader (engines/vgenrun/src/tchecks2.rs TolReader) is the oracle"],
    ),
    "C05": dict(
        engine="gen:psem_d0", parts=["gen:psem_d0", "gen:psem_d1"], level="exploration", quick_cap=280, thorough_cap=3600,
        rule=("Message types: every message generated by the real pilota-build from the protobuf semantic corpus (proto3: all 15 "
              "scalar types in singular, optional, repeated, map-value, 12 map-key and oneof positions; field numbers 1, 15, 16, "
              "2047, 2048, 2^29-1; enums incl. negative and undeclared numbers; embedded, nested (3 levels), recursive and imported "
              "messages in singular/optional/repeated/map/oneof position; proto2 required/optional/repeated) plus hand-written "
              "messages over the runtime codecs generated code does not reach (string over String, bytes over Vec<u8>, sint32/sint64, "
              "encode_packed of all 13 packable types, group singular/repeated/recursive, btree_map with 6 key/value kinds, the 11 "
              "wrapper impls of types.rs) x both settings of feature pb-encode-default-value (two harness builds). Values per "
              "message: the empty message, every field alone with every value of its boundary alphabet (13-14 integers per width incl. "
              "every varint length boundary, 10 float/double bit patterns incl. -0.0, NaN payload, subnormal; strings/bytes of length "
              "0,1,127,128,256,300 [16384 thorough]; repeated: singletons, the whole alphabet, 140 copies; maps: every key with one "
              "value, every value with one key, default key+default value, 4 entries; embedded messages: values of the embedded "
              "type one level down [two thorough]) and 6 [40] all-fields rows [thorough: plus every pair of fields over the first 4 values of each]. Each value is produced by decoding its reference "
              "encoding with 4 buffer kinds (Bytes, &[u8], two chunks split at 1 and at len/2: the varint slow path), then: "
              "encoded_len() == bytes written; encode into a window of exactly encoded_len() succeeds, fills it and leaves the "
              "painted slack intact; one byte less is refused; encode_length_delimited == varint(len)+encode; decoding the output "
              "consumes it exactly and yields the same field read-out (bit-exact for floats) and PartialEq-equal value; "
              "decode_length_delimited leaves exactly the 3 trailing bytes."),
        assumptions=["values of generated types are read through field accessors emitted from the schema (no codec involved)",
                     "the value domain is what the decoder produces from the reference encoding; C06 decides that it is the intended value",
                     "generator-level groups are outside the supported grammar (pilota-build has todo!() for TYPE_GROUP); groups are "
                     "covered at the runtime-codec level by the hand-written messages"],
    ),
    "C06": dict(
        engine="gen:psem_d0", parts=["gen:psem_d0", "gen:psem_d1"], level="model_checking", quick_cap=280, thorough_cap=3600,
        rule=("Message types and values as C05. For every value the reference encoder (vcore::pbref, written from the protobuf "
              "encoding guide, self-checked against its vectors) enumerates conforming encodings through a deviation-bounded "
              "explorer: permutation of the field records (<=5 records: all n! as one choice), repeated scalars unpacked / one "
              "packed run / two packed runs / packed run followed by unpacked elements, map entries key-value / value-key / default "
              "key omitted / default value omitted, proto3 singular defaults written / omitted; bound 1 quick, 2 thorough, <=400 "
              "[4000] encodings per value. Oracles: (decode direction) pilota decodes every conforming encoding completely and the "
              "field read-out equals the intended value; (encode direction) the reference decoder accepts pilota's bytes (declared "
              "wire type per field, zigzag, little-endian fixed widths, key=1/value=2 entries) and recovers the value pilota holds."),
        assumptions=["states = field kinds (label/type/map key) exercised; transitions = (field kind, kind of deviation from the canonical encoding)",
                     "not offered as conforming alternatives: non-minimal varints, repeated occurrences of singular fields (C18 covers merging)"],
    ),
    "C10": dict(
        engine="gen:psem_d0", parts=["gen:psem_d0", "gen:psem_d1"], level="fault_enumeration", quick_cap=280, thorough_cap=3600,
        rule=("Message types as C05. (a) every byte string of length <=2 (65 793) for about half of the types in quick / all in "
              "thorough, and all strings of length 3 [4] over an alphabet of 23 structural bytes + the keys of the type's first "
              "fields with every wire type 0..5; (b) for the all-fields rows and every 5th [every] single-field value, encoded with "
              "packed repeated fields: every truncation, the same under length-delimited framing (prefix promises more than is "
              "there: must be rejected), bit flips of bits {0,2,7} [all 8] at every position, every length prefix at every nesting "
              "level overwritten by len+1, len-1, 127, 2^14, 2^31-1, 2^32-1, 2^32, 2^63, 2^64-1, and by varints of 10, 11 and 12 bytes that "
              "overflow or never terminate (also in place of the first key); each with a Bytes buffer and two-chunk buffers split at "
              "len/2 and at every offset around the fault (before, inside and after the flipped byte / rewritten varint; all split "
              "points for the short strings of (a)); (c) nesting depth 1..300 and 5000 / 200 000 [10^3..10^6 for groups] through every recursive position "
              "(singular, repeated, map value, group fields of the hand-written message) and through unknown groups in any message; "
              "the same routes with each kind of field of the message (scalar, string, repeated, map entry, oneof member, embedded "
              "message: up to 8 [16] kinds) as the innermost content at depths 1..300 (quick: every depth in 90..112, every 7th elsewhere). "
              "Oracle: Ok or DecodeError - no panic, no worker death (stack overflow, abort), < 2 s; bytes allocated <= 64 KiB + "
              "4 x len x (largest message size_of + 64); a length prefix larger than the remaining input is rejected with at most "
              "what the unfaulted decode allocates + 2 KiB + len; depth > 100 is rejected, depth <= 64 (32 through map entries, which "
              "cost two levels) is accepted."),
        assumptions=["a stack overflow or abort kills the worker and is attributed through the progress file",
                     "allocation is measured by a counting global allocator over the decode call only"],
    ),
    "C18": dict(
        engine="gen:psem_d0", parts=["gen:psem_d0", "gen:psem_d1"], level="model_checking", quick_cap=280, thorough_cap=3600,
        rule=("Message types and value space as C05. Pairs (a, b): all ordered pairs of the all-fields rows; every single-field value "
              "followed by the next value of the same field (last-wins / append / map re-insertion / oneof replacement / field-wise "
              "message merge) and by a value of another field or oneof member; single-field values against rows in both orders "
              "(every 3rd in quick). For each pair: decode(enc(a) ++ enc(b)) == decode(enc(a)) then merge(enc(b)) == the reference "
              "decoder's result (the specification's merge); every order-preserving interleaving of the two top-level record "
              "sequences with <=2 [3] switches (deviation-bounded explorer, <=200 [1500] per pair, 60 for pairs over 4 KiB) equals the reference result. "
              "Unknown fields: for every value, 9 unknown records (varint 2 and 10 bytes, fixed64, fixed32, empty and non-empty "
              "length-delimited, empty group, nested group containing varint/group/length-delimited/fixed32, field number 2^29-2) "
              "inserted at every record boundary of every nesting level incl. inside map entries (quick: all boundaries up to 12, a "
              "third beyond): decoding succeeds, consumes everything and yields the unchanged value."),
        assumptions=["states = field kinds and (unknown kind, nesting level); transitions = (field kind, unknown kind, level) and (field kind, interleave)",
                     "interleavings are of whole records (a repeated field's occurrences may be separated, a packed run is one record)"],
    ),
    "C13": dict(
        engine="gen:tsem", level="exploration", quick_cap=280, thorough_cap=3600,
        rule=("Every struct of the semantic corpus compiled with keep_unknown_fields. Writer values = minimal and rich value plus "
              "one extra field (43 payloads; plus, once per type, a 65537-element list, a 65536-element list of structs and a 32769-entry map as the last unknown field; every wire type, empty strings/containers/structs and zero scalars at top level and nested, maps/lists of structs containing structs with variable-size fields, x every position), two extra fields (front/front, front/back, "
              "back/back), extras inside nested structs, list elements and map values. Decoded with {checked binary, unchecked "
              "binary at a guard page}, re-encoded with both; oracle: the reference decoder recovers every writer field (known "
              "with defaults filled + every unknown, byte-equal values), size() == bytes written, and the known fields equal those "
              "of the same IDL compiled without retention."),
        assumptions=["types in pilota's 'args' set are tagged [arg-type+retention] (recorded finding)"],
    ),
    "C19": dict(
        engine="gen:tsem", parts=["gen:tsem", "gen:psem_d0"], level="fault_enumeration", quick_cap=280, thorough_cap=3600,
        rule=("For a rich value, a minimal value and the rich value with every string/binary stretched to 40 [300, 5000] bytes, of every generated type (keep off/on) x {binary, binary-LE, compact}: every "
              "truncation [thorough: and every annotated length/count/id/type overwrite (C09 fault values)]; cases whose decode returns Err are "
              "run three times (warm-up + 2 measured) x {sync, async}: live heap bytes after dropping the error and the input must "
              "equal live bytes before on both measured runs (a real leak repeats, lazy statics do not). Protobuf half: the C10 "
              "fault set (b) (truncations, framed truncations, bit flips, length-prefix overwrites) of every generated and "
              "hand-written protobuf message with a Bytes buffer (values share the input) and a two-chunk buffer (values copy): "
              "after a failed decode live bytes == live bytes before."),
        assumptions=["counting global allocator (vcore::alloc); the harness drops its own response before measuring"],
    ),
    "C15": dict(
        engine="vparse", level="exploration", quick_cap=280, thorough_cap=3600,
        rule=("Descriptor ASTs enumerated per item kind (include, cpp_include, namespace x 9 scopes, typedef over 29 types incl. "
              "nested containers and annotated types, const over 50 values: ints incl. i64::MIN/MAX, 13 double spellings, 11 string "
              "literals incl. escapes and comment look-alikes, bools, paths, nested list/map literals; enums; struct/union/exception "
              "with every field id class, requiredness, type, default and annotation; services with extends/oneway/throws/"
              "annotations), all ordered pairs of item kinds, plus identifiers that merely begin with each of 31 keywords (4 suffix "
              "forms) in each of 23 identifier positions. Every AST is printed to tokens; EVERY free choice is a choice point of the "
              "deviation-bounded explorer: the blank between any two tokens (space, newline, tab+CRLF, /*c*/, // c, # c), every "
              "optional list separator (',' ';' none), quote style, decimal/hex integer form. Default layout + all single "
              "deviations (thorough: all triples for documents of <=24 tokens, all pairs for every document; capped at 6 M layouts per document). Oracle: File::parse(text) == Ok((\"\", f)), Debug of "
              "f.items == Debug of the AST converted to the parser's descriptor types, package == the rs namespace. "
              "distinct_nontrivial = distinct rendered texts."),
        assumptions=["a dotted path is one identifier token (no blanks around dots)", "separator choices only where Thrift IDL and "
                     "pilota's grammar declare an optional list separator (not after an enum's closing brace)"],
    ),
    "C16": dict(
        engine="vparse", level="fault_enumeration", quick_cap=280, thorough_cap=3600,
        rule=("Seeds: default renderings of the C15 ASTs (every 9th in quick), one large multi-item document with comments, one "
              "non-ASCII document. Mutations enumerated completely per seed: every prefix; every token deleted, duplicated, replaced "
              "by each of a 40-token alphabet (every 3rd token for long seeds in quick); every number inflated to 10/11/19/20/40 "
              "digits and to 26 extreme literals (decimal and hex at and beyond the i64 limits with both signs, malformed exponents); tokens repeated 64/4096/60000 times (nesting tokens - [ { < ( list map set only 2 "
              "and 64 times: deeper nesting is outside the statement); ALL strings of length <=2 [4] over a 40-character alphabet, "
              "alone and behind 7 plausible prefixes; type and constant nesting depth 1..64 (list<..>, map<..>, [[..]], {{..}}, "
              "----1). Every parse runs on a thread with a 2 MiB stack. Oracle: Ok or Err; no panic, no stack overflow (worker "
              "death), < 2 s. distinct_nontrivial = distinct texts."),
        assumptions=["a stack overflow kills the worker and is attributed through the progress file"],
    ),
    "C14": dict(
        engine="py:c14", level="exploration", quick_cap=600, thorough_cap=7200,
        rule=("Programs: the naming-stress and structural Thrift corpus of lib/corpus.py thrift_stress() (35 documents: every "
              "Rust keyword of pilota's KEYWORDS_SET as struct / field / argument / method / enum / variant / typedef / const name; "
              "std prelude names as type and variant names; identifiers colliding after case conversion; recursion through "
              "optional fields, lists, maps, unions, typedefs, exceptions and required fields (incl. required through a union); type "
              "cycles (2- and 3-cycles, both declaration orders, self recursion) whose members reach types without Hash/Eq/Ord or "
              "PartialOrd through struct-typed fields; several files generating into one Rust module; Builder::dedup with an identical "
              "item in 12 modules and twice in one module; constants of every kind incl. nested "
              "and struct literals; a 5-file document with includes, nested and sibling namespaces, same type names in several "
              "files and cross-file service extends; services with oneway/void/extends/throws; every container nesting to depth "
              "3) + the 7 semantic documents [+ the protobuf documents]. Configurations: quick = one document per construct label "
              "x {single/keep-off, split/keep-on, change_case off, keep-on+ignore_unused}; thorough = all documents x all 16 "
              "combinations of {single, split} x {keep off,on} x {change_case on,off} x {ignore_unused off,on}. Oracle: the "
              "builder child exits 0 within 60 s; `cargo check` of a crate that includes every emitted file as a module against "
              "the real pilota succeeds (a failing crate is narrowed to modules through the rustc diagnostics). "
              "distinct_nontrivial = (document, configuration) pairs with non-empty output."),
        assumptions=["the grammar is the one of DESIGN.md §2; hashable-key restrictions of Rust containers are respected (no "
                     "set<set<..>>, no map<map<..>,..>)", "type-checking is `cargo check` (no codegen)"],
    ),
    "C17": dict(
        engine="py:c17", level="model_checking", quick_cap=600, thorough_cap=7200,
        rule=("Documents: a 5-file Thrift document with nested/sibling namespaces, the case-collision document, the service "
              "document, six files sharing one rs namespace, twelve modules with an identical item under Builder::dedup, a four-file "
              "document compiled with ignore_unused and Builder::touch naming items of three files, a protobuf "
              "file with 4+ nested messages [thorough: 5 more incl. a two-file protobuf import] x output modes "
              "{single file, split files, workspace}. Schedules: (a) with the cfg(pilota_verif) hook the per-module code generation "
              "tasks run sequentially in a dictated order: ALL permutations for <=4 [5] tasks (adjacent transpositions + reversal "
              "beyond); (b) without the hook: per-process hash seeds 0..7 [0..95] x rayon pool sizes {1,16} [{1,2,3,4,8,16}], the "
              "seeds being owned through an LD_PRELOAD getrandom/syscall shim with ASLR off; (c) a second generation into the directory "
              "that already holds the first run's files (the build.rs sequence). Oracle: the set of emitted files and "
              "every file's SHA-256 equal those of the reference run (seed 0, one thread); the hooked build's output equals the "
              "unhooked one. states = distinct schedules (task orders, seeds); transitions = builder executions; "
              "traces_validated_against_impl = executions (every schedule is run on the real generator). The evidence also counts "
              "how many distinct natural iteration orders of the module map the seed set realised."),
        assumptions=["rayon work stealing BELOW task granularity is not controlled (tasks are the unit of scheduling)",
                     "seed control is validated in every run: the natural iteration order recorded by the hook must change with "
                     "the seed (counters.keys_with_more_than_one_natural_order > 0), and replays run the same seed twice"],
    ),
}


ALL_PROPS = ["C%02d" % i for i in range(1, 21)]

NOT_APPLICABLE = {}

TECHNIQUE = {
    "model_checking": "bounded exhaustive enumeration of operation sequences / schedules on the real code (stateless explicit-state exploration, deviation-bounded)",
    "exploration": "bounded exhaustive enumeration of inputs/programs on the real code against a reference model",
    "fault_enumeration": "exhaustive enumeration of fault positions and fault values over seed encodings on the real code",
}


def write_manifest():
    import collections
    engines = collections.OrderedDict()
    checks = []
    for pid in ALL_PROPS:
        if pid not in CHECKS:
            continue
        c = CHECKS[pid]
        engines.setdefault(c["engine"], []).append(pid)
        checks.append({
            "property_id": pid,
            "quick_cmd": "./verif check %s --tier quick" % pid,
            "thorough_cmd": "./verif check %s --tier thorough" % pid,
            "evidence_file": "evidence/%s.json" % pid,
            "replay_cmd_template": "./verif replay {path}",
            "engine": c["engine"],
            "level_claimed": {"category": c["level"], "text": c.get("claim", c["rule"])[:1500], "design_ref": "DESIGN.md §3 " + pid},
            "level_note": "; ".join(c["assumptions"])[:1500],
            "technique": c.get("technique", TECHNIQUE[c["level"]]),
        })
    na = []
    for pid in ALL_PROPS:
        if pid not in CHECKS:
            na.append({"property_id": pid, "reason": NOT_APPLICABLE.get(pid, "check under construction (not yet registered)")})
    kinds = {
        "vcore": "shared library: dynamic Thrift values, bounded enumerators, reference codecs written from the specs, deviation-bounded explorer, counting allocator, shard/evidence plumbing",
        "gen:tsem": "generated-code engine: lib/corpus.py writes the semantic Thrift corpus + its schema, engines/vgen runs the real pilota-build per (document, configuration) in a child process, lib/gen.py scans the output for generated Message impls and emits a harness crate that include!s them; engines/vgenrun/src is the harness (schema-directed value enumeration, reference codec comparison)",
        "gen:psem_d0": "generated protobuf engine: lib/corpus.py writes the protobuf semantic corpus + schema, engines/vgen runs the real pilota-build, lib/gen.py emits a harness crate that include!s the generated files and field read-out impls derived from the schema; engines/vpbrun/src is the harness (value spaces, reference codec vcore::pbref, fault enumeration); built against pilota with feature pb-encode-default-value off",
        "gen:psem_d1": "the same harness built against pilota with feature pb-encode-default-value on",
        "py:c17": "lib/c17.py: runs the real generator (plain and cfg(pilota_verif)-hooked builds of engines/vgen) under an LD_PRELOAD getrandom shim (engines/shim/verifrand.c), setarch -R and RAYON_NUM_THREADS; compares SHA-256 of all emitted files",
        "py:c14": "lib/c14.py: runs engines/vgen (the real pilota-build) in a child process per (document, configuration) and type-checks all outputs as modules of one crate",
        "vparse": "Thrift IDL parser engine: own descriptor AST, token printer with a choice point at every free layout decision, mutation/fault enumerators over rendered documents; drives pilota_thrift_parser::File::parse",
        "vrt": "runtime-level engine: value interpreter that drives pilota's real protocol objects exhaustively over the enumerated spaces (sync and scripted-async readers)",
    }
    m = {
        "version": 1,
        "setup_cmd": "./verif setup",
        "hooks": {
            "guard": "pilota_verif",
            "enable": "RUSTFLAGS=--cfg pilota_verif (only C17 needs a hook; all other checks drive public APIs)",
            "baseline_off_cmd": "cd /repo && cargo test --workspace --no-fail-fast --offline",
            "source_commits": HOOK_COMMITS,
            "add_only": True,
        },
        "engines": [{"name": "vcore", "path": "engines/vcore", "serves_properties": sorted(CHECKS), "kind_free_text": kinds["vcore"]}] +
                   [{"name": e, "path": ("engines/vgenrun" if e.startswith("gen:") else ("lib/" + e[3:] + ".py" if e.startswith("py:") else "engines/" + e)), "serves_properties": ps, "kind_free_text": kinds.get(e, "")} for e, ps in engines.items()],
        "checks": checks,
        "not_applicable": na,
        "notes": "Quick tier of every check runs in well under a minute after ./verif setup; exit 2 = machinery error (never a verdict). known_findings.json lists recorded defects; fixed entries suppress nothing.",
    }
    json.dump(m, open(os.path.join(ROOT, "MANIFEST.json"), "w"), indent=1)
    print("MANIFEST.json written: %d checks, %d not applicable" % (len(checks), len(na)))
    return 0


HOOK_COMMITS = ["0f6c9c8"]


def setup():
    for pkg in ["vrt", "vgen", "vparse"]:
        vlib.build(pkg)
    import gen
    r = gen.build_thrift_sem("quick")
    print("tsem harness:", json.dumps(r["info"]))
    for cfg in ("d0", "d1"):
        print("psem harness:", json.dumps(gen.build_proto_sem(cfg)["info"]))
    # warm the C14 type-check crate (cargo check is a no-op afterwards unless /repo changes)
    import c14, c17
    c14.run("quick", 0)
    c17.build_shim()
    c17.build_hooked()
    print("setup ok")
    return 0


def sig_listed(known, sig):
    for f in known.get("findings", []):
        if f.get("status", "open") != "open":
            continue
        if f.get("signature") == sig or sig in f.get("signatures", ()):
            return f
        # a finding may name a construct tag computed by the harness from the IDL (e.g.
        # "C02[arg-type+retention]|"): every failure carrying that tag is the same recorded defect
        if f.get("signature_regex") and re.match(f["signature_regex"], sig):
            return f
        for pre in ([f["signature_prefix"]] if f.get("signature_prefix") else []) + f.get("signature_prefixes", []):
            if sig.startswith(pre):
                return f
    return None


DEATH_TAGS = {0: "", 1: "[arg-type+retention]", 2: "[union-variant-type]", 3: "[recursion-depth]"}


def engine_bin(engine, tier):
    """Returns (binary path, build seconds, info dict)."""
    t0 = time.time()
    if engine.startswith("gen:"):
        import gen
        r = {"gen:tsem": gen.build_thrift_sem, "gen:psem_d0": lambda t: gen.build_proto_sem("d0"),
             "gen:psem_d1": lambda t: gen.build_proto_sem("d1")}[engine](tier)
        return r["bin"], time.time() - t0, r["info"]
    b, secs = vlib.build(engine)
    return b, secs, {}


def run_check(pid, tier, seed):
    if pid not in CHECKS:
        die("unknown check " + pid)
    c = CHECKS[pid]
    if c["engine"].startswith("py:"):
        import importlib
        return importlib.import_module(c["engine"][3:]).run(tier, seed)
    t0 = time.time()
    parts = c.get("parts", [c["engine"]])
    merged = None
    build_s = 0.0
    infos = {}
    for i, engine in enumerate(parts):
        binpath, bs, info = engine_bin(engine, tier)
        build_s += bs
        if info:
            infos[engine] = info
        wdir = os.path.join(WORK, pid, "p%d" % i)
        nshards = c.get("shards", min(16, vlib.NCPU))
        cap = c["quick_cap"] if tier == "quick" else c["thorough_cap"]
        results, deaths, run_s, capped = vlib.run_shards(binpath, pid, tier, nshards, c.get("args", []), wdir, seed, cap)
        m = vlib.merge(results)
        m["caps"] += capped
        # worker deaths are observations
        for d in deaths:
            if d.get("hang"):
                # the worker's watchdog stopped it: the announced case did not finish within the per-case limit
                sig = "%s%s|worker-hang" % (pid, DEATH_TAGS.get(d.get("tag", 0), ""))
            else:
                sig = "%s%s|worker-death|rc=%s" % (pid, DEATH_TAGS.get(d.get("tag", 0), ""), d["rc"])
            g = m["failures"].setdefault(sig, {"sig": sig, "count": 0, "first_index": d["index"],
                                               "case": {"index": d["index"], "shard": d["shard"], "part": i},
                                               "detail": d["log_tail"][-300:]})
            g["count"] += 1
        # a semantic-corpus document the generator fails on, or whose output had to be dropped from
        # the harness because it does not compile, would silently shrink what this check covers:
        # it is a failure of this check (C14 names the construct; here the document is enough)
        for bf in (info or {}).get("builder_failures", []):
            sig = "%s|generator-failed-on-corpus-document|%s" % (pid, bf.get("doc"))
            m["failures"].setdefault(sig, {"sig": sig, "count": 0, "first_index": 0, "case": {"doc": bf.get("doc"), "cfg": bf.get("cfg"), "part": i},
                                           "detail": str(bf.get("msg"))[:300]})["count"] += 1
        for dm in (info or {}).get("dropped_modules", []):
            sig = "%s|generated-code-does-not-compile|%s" % (pid, str(dm.get("module")).rsplit("__", 1)[0])
            m["failures"].setdefault(sig, {"sig": sig, "count": 0, "first_index": 0, "case": {"module": dm.get("module"), "part": i},
                                           "detail": "; ".join(dm.get("errors", []))[:300]})["count"] += 1
        for f in m["failures"].values():
            f["part"] = i
        merged = m if merged is None else vlib.merge_two(merged, m)
    merged["engine_info"] = infos
    return verdict(pid, tier, seed, c, merged, time.time() - t0, build_s)


def verdict(pid, tier, seed, c, m, wall, build_s):
    known = vlib.load_known()
    violations = []
    known_hits = []
    rdir = os.path.join(ROOT, "replays", pid)
    if os.path.isdir(rdir):
        for f in os.listdir(rdir):
            os.remove(os.path.join(rdir, f))
    for sig in sorted(m["failures"]):
        f = m["failures"][sig]
        k = sig_listed(known, sig)
        if k is not None:
            known_hits.append((sig, k, f))
        else:
            violations.append((sig, f))
    grouped = {}
    for sig, k, f in known_hits:
        g = grouped.setdefault(id(k), [k, 0, 0])
        g[1] += 1
        g[2] += f["count"]
    for k, nsig, nexec in grouped.values():
        print("KNOWN-FINDING: property=%s %s [%s; %d signatures, %d failing executions]"
              % (pid, k.get("description", ""), k.get("signature") or k.get("signature_regex") or k.get("signature_prefix") or ",".join(k.get("signature_prefixes", [])) or ("%d listed signatures" % len(k.get("signatures", []))), nsig, nexec))
    if violations:
        os.makedirs(rdir, exist_ok=True)
    for sig, f in violations:
        name = "".join(ch if ch.isalnum() else "_" for ch in sig)[:120] + ".json"
        path = os.path.join(rdir, name)
        json.dump({"property": pid, "sig": sig, "engine": c.get("parts", [c["engine"]])[f.get("part", 0)], "tier": tier, "count": f["count"],
                   "first_index": f["first_index"], "detail": f["detail"], "case": f["case"]}, open(path, "w"), indent=1)
        print("VIOLATION property=%s replay=%s" % (pid, os.path.relpath(path, ROOT)))
        print("  signature: %s  (%d failing executions)  %s" % (sig, f["count"], str(f["detail"])[:200]))
    cov = {
        "evaluations": m["evaluations"],
        "distinct_nontrivial": m["nontrivial"],
        "rule": c["rule"],
        "samples": m["samples"] if m["samples"] else ["(none)"],
        "exhaustive": len(m["caps"]) == 0,
        "caps_hit": m["caps"],
        "cases_enumerated": m["cases_enumerated"],
        "spaces": m["spaces"],
        "distinct_outcomes": m["outcomes"],
        "counters": m["counters"],
        "notes": m["notes"],
        "failing_signatures": {s: m["failures"][s]["count"] for s in sorted(m["failures"])},
        "known_findings_seen": [s for s, _, _ in known_hits],
        "engine_info": m.get("engine_info", {}),
    }
    if c["level"] == "model_checking":
        cov["states"] = len(m["states"])
        cov["transitions"] = len(m["transitions"])
        cov["traces_validated_against_impl"] = m["evaluations"]
    cov.update(c.get("coverage_extra", {}))
    ev = {
        "property_id": pid, "tier": tier, "seed": seed, "level": c["level"], "coverage": cov,
        "assumptions": c["assumptions"], "wall_s": round(wall, 2), "build_s": round(build_s, 2),
        "violations": len(violations),
    }
    os.makedirs(os.path.join(ROOT, "evidence"), exist_ok=True)
    json.dump(ev, open(os.path.join(ROOT, "evidence", pid + ".json"), "w"), indent=1)
    print("%s %s: %d executions over %d cases, %d distinct outcomes, %d failing signatures (%d known), %.1fs"
          % (pid, tier, m["evaluations"], sum(m["spaces"].values()), len(m["outcomes"]), len(m["failures"]),
             len(known_hits), wall))
    return 1 if violations else 0


def replay(path):
    r = json.load(open(path))
    pid = r["property"]
    c = CHECKS[pid]
    if c["engine"].startswith("py:"):
        import importlib
        return importlib.import_module(c["engine"][3:]).replay(path)
    engine = r.get("engine", c["engine"])
    binpath, _, _ = engine_bin(engine, r.get("tier", "quick"))
    if ("worker-death" in r.get("sig", "") or "worker-hang" in r.get("sig", "")) and "index" in r.get("case", {}):
        # a case that killed the worker: re-run exactly that case index in a child process
        out = os.path.join(WORK, "replay_only.json")
        p = subprocess.run([binpath, pid, "--tier", r.get("tier", "quick"), "--shard", "0/1", "--only",
                            str(r["case"]["index"]), "--out", out, "--progress", os.path.join(WORK, "replay_prog")] + c.get("args", []), cwd=ROOT, env=vlib.ENV,
                           stdout=subprocess.PIPE, stderr=subprocess.STDOUT, text=True)
        print(p.stdout[-800:])
        if p.returncode not in (0, 1):
            print("REPRODUCED %s (worker exit status %s on case index %s)" % (r["sig"], p.returncode, r["case"]["index"]))
            return 1
        print("NOT-REPRODUCED %s" % r["sig"])
        return 0
    p = subprocess.run([binpath, "--replay", os.path.abspath(path)], cwd=ROOT, env=vlib.ENV)
    return p.returncode

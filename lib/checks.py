"""Check table, verdict logic, evidence writing."""
import json, os, sys, time, subprocess
import vlib
from vlib import ROOT, WORK, die

# ---------------------------------------------------------------------------------------------
# per-check static description (what is enumerated, what counts as non-trivial, assumptions)

CHECKS = {
    "C01": dict(
        engine="vrt", level="model_checking", quick_cap=240, thorough_cap=3600,
        rule=("Every Val of: (a) all shapes of nesting depth<=2 (full product over depth-1 shapes: struct width<=2, "
              "lists/sets of 1,2 (and 14,15,16 at depth 1) elements, all map key x value shapes; thorough adds width 3 at "
              "depth 1 and every depth-2 shape wrapped once more = depth 3); (b) scalar sweeps (all i8, i16 boundaries or all "
              "i16, i32/i64 +-2^k+-1, 40 double bit patterns, payload lengths around 128/4096/16384) in 5 contexts; (c) all "
              "ordered field-id pairs of a 13-id set x all leaf-kind pairs, nested-struct id patterns; (d) all ordered pairs "
              "(thorough: triples) of depth<=1 shapes written back to back through ONE writer and read through ONE reader; "
              "each x {binary, binary-LE, compact, unchecked} x {BytesMut, LinkedBytes, LinkedBytes zero-copy} x bin/string "
              "API pairs x {plain, generated-code-like} reader call sequences. distinct_nontrivial = distinct cases with >=2 "
              "nodes, >1 value, or a multi-byte scalar."),
        assumptions=["dev profile with debug assertions and overflow checks on (the profile the repository's tests use)",
                     "values outside the stated alphabets/bounds are not covered",
                     "states/transitions are abstract states of the real codec objects: (open-struct depth<=3, enclosing "
                     "container kind, previous op) x (op, field-id delta class/size class); every transition was executed on "
                     "the real code"],
    ),
}


def setup():
    for pkg in ["vrt"]:
        vlib.build(pkg)
    print("setup ok")
    return 0


def sig_listed(known, sig):
    for f in known.get("findings", []):
        if f.get("signature") == sig and f.get("status", "open") == "open":
            return f
    return None


def run_check(pid, tier, seed):
    if pid not in CHECKS:
        die("unknown check " + pid)
    c = CHECKS[pid]
    t0 = time.time()
    binpath, build_s = vlib.build(c["engine"])
    wdir = os.path.join(WORK, pid)
    nshards = c.get("shards", min(16, vlib.NCPU))
    cap = c["quick_cap"] if tier == "quick" else c["thorough_cap"]
    results, deaths, run_s = vlib.run_shards(binpath, pid, tier, nshards, c.get("args", []), wdir, seed, cap)
    m = vlib.merge(results)
    # worker deaths are observations
    for d in deaths:
        sig = "%s|worker-death|rc=%s" % (pid, d["rc"])
        g = m["failures"].setdefault(sig, {"sig": sig, "count": 0, "first_index": d["index"],
                                           "case": {"index": d["index"], "shard": d["shard"]},
                                           "detail": d["log_tail"][-300:]})
        g["count"] += 1
    return verdict(pid, tier, seed, c, m, time.time() - t0, build_s)


def verdict(pid, tier, seed, c, m, wall, build_s):
    known = vlib.load_known()
    violations = []
    known_hits = []
    rdir = os.path.join(ROOT, "replays", pid)
    for sig in sorted(m["failures"]):
        f = m["failures"][sig]
        k = sig_listed(known, sig)
        if k is not None:
            known_hits.append((sig, k, f))
        else:
            violations.append((sig, f))
    for sig, k, f in known_hits:
        print("KNOWN-FINDING: property=%s %s [%s; %d failing executions]" % (pid, k.get("description", ""), sig, f["count"]))
    if violations:
        os.makedirs(rdir, exist_ok=True)
    for sig, f in violations:
        name = "".join(ch if ch.isalnum() else "_" for ch in sig)[:120] + ".json"
        path = os.path.join(rdir, name)
        json.dump({"property": pid, "sig": sig, "engine": c["engine"], "tier": tier, "count": f["count"],
                   "first_index": f["first_index"], "detail": f["detail"], "case": f["case"]}, open(path, "w"), indent=1)
        print("VIOLATION property=%s replay=%s" % (pid, os.path.relpath(path, ROOT)))
        print("  signature: %s  (%d failing executions)  %s" % (sig, f["count"], str(f["detail"])[:200]))
    cov = {
        "evaluations": m["evaluations"],
        "distinct_nontrivial": m["nontrivial"],
        "rule": c["rule"],
        "samples": m["samples"] if m["samples"] else ["(none)"],
        "exhaustive": len(m["caps"]) == 0,
        "caps_hit": m["caps"],
        "cases_enumerated": m["cases_enumerated"],
        "spaces": m["spaces"],
        "distinct_outcomes": m["outcomes"],
        "counters": m["counters"],
        "notes": m["notes"],
        "failing_signatures": {s: m["failures"][s]["count"] for s in sorted(m["failures"])},
        "known_findings_seen": [s for s, _, _ in known_hits],
    }
    if c["level"] == "model_checking":
        cov["states"] = len(m["states"])
        cov["transitions"] = len(m["transitions"])
        cov["traces_validated_against_impl"] = m["evaluations"]
    cov.update(c.get("coverage_extra", {}))
    ev = {
        "property_id": pid, "tier": tier, "seed": seed, "level": c["level"], "coverage": cov,
        "assumptions": c["assumptions"], "wall_s": round(wall, 2), "build_s": round(build_s, 2),
        "violations": len(violations),
    }
    os.makedirs(os.path.join(ROOT, "evidence"), exist_ok=True)
    json.dump(ev, open(os.path.join(ROOT, "evidence", pid + ".json"), "w"), indent=1)
    print("%s %s: %d executions over %d cases, %d distinct outcomes, %d failing signatures (%d known), %.1fs"
          % (pid, tier, m["evaluations"], sum(m["spaces"].values()), len(m["outcomes"]), len(m["failures"]),
             len(known_hits), wall))
    return 1 if violations else 0


def replay(path):
    r = json.load(open(path))
    pid = r["property"]
    c = CHECKS[pid]
    binpath, _ = vlib.build(c["engine"])
    p = subprocess.run([binpath, "--replay", os.path.abspath(path)], cwd=ROOT, env=vlib.ENV)
    return p.returncode

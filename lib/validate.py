import json,sys,glob
import jsonschema
m=json.load(open('/verif/MANIFEST.json'))
jsonschema.validate(m,json.load(open('/root/.vp/MANIFEST.schema.json')))
es=json.load(open('/root/.vp/EVIDENCE.schema.json'))
for c in m['checks']:
    p='/verif/'+c['evidence_file']
    try:
        jsonschema.validate(json.load(open(p)),es); print('ok',p)
    except FileNotFoundError: print('missing',p)
props=[json.loads(l)['id'] for l in open('/verif/properties.jsonl')]
claimed={c['property_id'] for c in m['checks']}; na={x['property_id'] for x in m.get('not_applicable',[])}
for p in props:
    if (p in claimed)==(p in na): print('PROBLEM',p)
print('manifest valid')

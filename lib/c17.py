"""C17 — code generation is deterministic.

Owned sources of nondeterminism: (1) per-process hash seeds (std RandomState and ahash) through an
LD_PRELOAD shim that answers getrandom / syscall(SYS_getrandom) from VERIF_HASH_SEED, with ASLR off
(`setarch -R`: ahash also mixes in addresses of statics); (2) rayon pool size through
RAYON_NUM_THREADS; (3) the order in which the per-module code-generation tasks run, through the
cfg(pilota_verif) hook that runs them sequentially in a dictated order (all permutations)."""
import hashlib, itertools, json, os, shutil, subprocess, time
from concurrent.futures import ThreadPoolExecutor
import vlib, corpus, gen
from vlib import ROOT, WORK, die

SHIM_SRC = os.path.join(ROOT, "engines", "shim", "verifrand.c")
SHIM = os.path.join(WORK, "shim", "libverifrand.so")
HOOK_TARGET = os.path.join(ROOT, "target", "hooked")


def build_shim():
    os.makedirs(os.path.dirname(SHIM), exist_ok=True)
    if not os.path.exists(SHIM) or os.path.getmtime(SHIM) < os.path.getmtime(SHIM_SRC):
        r = subprocess.run(["gcc", "-O2", "-shared", "-fPIC", "-o", SHIM, SHIM_SRC, "-ldl"], stdout=subprocess.PIPE, stderr=subprocess.STDOUT, text=True)
        if r.returncode != 0:
            print(r.stdout)
            die("cannot build the getrandom shim")
    return SHIM


def build_hooked():
    env = dict(vlib.ENV)
    env["RUSTFLAGS"] = "--cfg pilota_verif"
    env["CARGO_TARGET_DIR"] = HOOK_TARGET
    r = subprocess.run(["cargo", "build", "--offline", "-q", "-p", "vgen"], cwd=vlib.ENG, env=env, stdout=subprocess.PIPE, stderr=subprocess.STDOUT, text=True)
    if r.returncode != 0:
        print(r.stdout[-4000:])
        die("hooked generator build failed")
    return os.path.join(HOOK_TARGET, "debug", "vgen")


PROTO_NESTED = """syntax = "proto3";
package nested.pkg;

message Outer {
  message A { int32 a = 1; message Deep { string d = 1; } Deep deep = 2; }
  message B { string b = 1; }
  message C { repeated A as = 1; }
  message D { map<string, B> m = 1; }
  enum Kind { K0 = 0; K1 = 1; }
  A a = 1;
  B b = 2;
  C c = 3;
  D d = 4;
  Kind k = 5;
  oneof pick { A pa = 6; B pb = 7; }
}
message Second { Outer.A a = 1; Outer.B b = 2; }
message Third { Second s = 1; }
service Svc { rpc Get(Outer) returns (Second); rpc Put(Third) returns (Outer); }
"""

PROTO_TWO = {
    "two_main.proto": """syntax = "proto3";
package two.main;
import "two_dep.proto";
message M1 { two.dep.D1 d = 1; message In1 { int32 x = 1; } message In2 { int32 y = 1; } message In3 { In1 i = 1; } In1 a = 2; In2 b = 3; In3 c = 4; }
message M2 { M1 m = 1; }
message M3 { repeated M2 ms = 1; }
""",
    "two_dep.proto": """syntax = "proto3";
package two.dep;
message D1 { int32 v = 1; message N1 { int32 a = 1; } message N2 { int32 b = 1; } N1 n1 = 2; N2 n2 = 3; }
message D2 { D1 d = 1; }
""",
}


def documents(tier):
    stress = {d.name: d for d in corpus.thrift_stress()}
    sem = {d.name: d for d in corpus.sem_as_raw()}
    docs = [
        ("multi_file", "thrift", [stress["multi_file"]], "multi_main.thrift"),
        ("case_collisions", "thrift", [stress["case_collisions"]], None),
        ("shared_ns", "thrift", [stress["shared_ns"]], "shared_main.thrift"),
        ("dedup_modules", "thrift", [stress["dedup_modules"]], "dd_main.thrift"),
        ("touch_multi", "thrift", [stress["touch_multi"]], "tm_main.thrift"),
        ("sem_service", "thrift", [sem["sem_service"]], None),
        ("proto_nested", "proto", [corpus.RawDoc("proto_nested", {"proto_nested.proto": PROTO_NESTED}, mode="proto")], None),
    ]
    if tier != "quick":
        docs += [
            ("kw_struct_0", "thrift", [stress["kw_struct_0"]], None),
            ("recursion_all", "thrift", [stress["recursion_all"]], None),
            ("sem_named", "thrift", [sem["sem_named"]], None),
            ("consts_all", "thrift", [stress["consts_all"]], None),
            ("proto_two", "proto", [corpus.RawDoc("proto_two", PROTO_TWO, main="two_main.proto", mode="proto")], None),
        ]
    return docs


def hash_tree(path):
    """{relative file: sha256} of a file or directory output"""
    out = {}
    if os.path.isfile(path):
        out[os.path.basename(path)] = hashlib.sha256(open(path, "rb").read()).hexdigest()
        stem = path[:-3] if path.endswith(".rs") else path
        if os.path.isdir(stem):
            for r, _, fs in os.walk(stem):
                for f in fs:
                    p = os.path.join(r, f)
                    out[os.path.relpath(p, os.path.dirname(path))] = hashlib.sha256(open(p, "rb").read()).hexdigest()
    elif os.path.isdir(path):
        for r, _, fs in os.walk(path):
            for f in fs:
                p = os.path.join(r, f)
                out[os.path.relpath(p, path)] = hashlib.sha256(open(p, "rb").read()).hexdigest()
    return out


def run_one(binpath, mode, idl_dir, docname, rawdocs, output_mode, outdir, seed, threads, schedule=None, trace=None, keep=False):
    """one builder process; returns (rc, {file: sha}); keep: generate over the files of an earlier run"""
    if os.path.exists(outdir) and not keep:
        shutil.rmtree(outdir)
    os.makedirs(outdir, exist_ok=True)
    d = rawdocs[0]
    main = os.path.join(idl_dir, d.name, d.main)
    cmd = ["setarch", "x86_64", "-R", binpath, mode]
    if output_mode == "workspace":
        open(os.path.join(outdir, "Cargo.toml"), "w").close()
        cmd += ["--workspace", "--out", outdir]
        target = outdir
    else:
        target = os.path.join(outdir, "gen.rs")
        cmd += ["--out", target]
        if output_mode == "split":
            cmd += ["--split"]
    if getattr(d, "dedup", None):
        cmd += ["--dedup", ",".join(d.dedup)]
    for rel, items in getattr(d, "touch", {}).items():
        cmd += ["--touch", "%s:%s" % (os.path.join(idl_dir, d.name, rel), ",".join(items))]
    cmd += getattr(d, "flags", [])
    if mode == "proto":
        cmd += ["--include", os.path.join(idl_dir, d.name)]
    cmd += [main]
    env = dict(vlib.ENV)
    env["LD_PRELOAD"] = SHIM
    env["VERIF_HASH_SEED"] = str(seed)
    env["RAYON_NUM_THREADS"] = str(threads)
    if schedule is not None:
        env["PILOTA_VERIF_SCHEDULE"] = ",".join(str(x) for x in schedule)
    if trace is not None:
        env["PILOTA_VERIF_TRACE"] = trace
    try:
        p = subprocess.run(cmd, cwd=outdir, env=env, stdout=subprocess.PIPE, stderr=subprocess.STDOUT, timeout=120)
        rc = p.returncode
        log = p.stdout.decode("utf8", "replace")
    except subprocess.TimeoutExpired:
        rc, log = -999, "timeout"
    # every file below the run's own output directory (split mode writes its module tree next to
    # the main file, not below a directory named after it)
    h = hash_tree(outdir) if rc == 0 else {}
    # the generator writes absolute paths of this run's output dir nowhere into the files; keep as is
    return rc, h, log


def run(tier, seed0):
    import checks
    t0 = time.time()
    build_shim()
    plain = gen.ensure_vgen()
    hooked = build_hooked()
    base = os.path.join(WORK, "gen", "c17")
    idl_dir = os.path.join(base, "idl")
    docs = documents(tier)
    for _, _, raws, _ in docs:
        corpus.write_raw(raws, idl_dir)
    modes = ["single", "split", "workspace"]
    seeds = list(range(8)) if tier == "quick" else list(range(96))
    threads = [1, 16] if tier == "quick" else [1, 2, 3, 4, 8, 16]
    max_perm_tasks = 4 if tier == "quick" else 5
    m = {"evaluations": 0, "nontrivial": 0, "states": set(), "transitions": set(), "outcomes": {}, "samples": [],
         "failures": {}, "caps": [], "spaces": {}, "counters": {}, "notes": [], "cases_enumerated": 0}

    def fail(sig, case, detail):
        g = m["failures"].setdefault(sig, {"sig": sig, "count": 0, "first_index": 0, "case": case, "detail": detail})
        g["count"] += 1

    def outcome(k):
        m["outcomes"][k] = m["outcomes"].get(k, 0) + 1

    # -- seed control self-test: same seed twice => identical; this is the "replay a schedule twice" test
    jobs = []
    counter = [0]

    def mk_out():
        counter[0] += 1
        return os.path.join(base, "runs", "r%06d" % counter[0])

    natural_orders = {}
    keys = [(name, mode, raws, omode) for (name, mode, raws, _), omode in itertools.product(docs, modes)
            if not (mode == "proto" and omode == "workspace")]
    trace_dir = os.path.join(base, "traces")
    os.makedirs(trace_dir, exist_ok=True)
    import threading
    lock = threading.Lock()

    def mk_out_locked():
        with lock:
            return mk_out()

    # phase 1 (all keys in parallel): the reference run and one traced hooked run that discovers
    # the number of per-module tasks
    def phase1(k):
        name, mode, raws, omode = k
        rc, ref, log = run_one(plain, mode, idl_dir, name, raws, omode, mk_out_locked(), 0, 1)
        if rc != 0:
            return k, rc, ref, log, None, None, 0
        tr = os.path.join(trace_dir, "%s_%s_probe.txt" % (name, omode))
        if os.path.exists(tr):
            os.remove(tr)
        rc2, hh, log2 = run_one(hooked, mode, idl_dir, name, raws, omode, mk_out_locked(), 0, 1, trace=tr)
        ntasks = 0
        if os.path.exists(tr):
            lines = [l for l in open(tr).read().splitlines() if l.startswith("mods")]
            ntasks = max([len(l.split("\t")) - 1 for l in lines] + [0])
        return k, rc, ref, log, rc2, hh, ntasks

    with ThreadPoolExecutor(max_workers=vlib.NCPU) as ex:
        first = list(ex.map(phase1, keys))
    work = []
    refs = {}
    for (name, mode, raws, omode), rc, ref, log, rc2, hh, ntasks in first:
        key = "%s/%s" % (name, omode)
        m["evaluations"] += 1
        if rc != 0:
            fail("C17|%s|%s|builder-failed" % (mode, omode), {"doc": name, "mode": omode}, log[-400:])
            continue
        m["nontrivial"] += 1
        m["evaluations"] += 1
        refs[key] = ref
        if len(m["samples"]) < 6:
            m["samples"].append({"document": name, "output_mode": omode, "files": len(ref), "sha256_of_first": sorted(ref.items())[0][1][:16]})
        if rc2 != 0 or hh != ref:
            outcome("hooked-differs")
            fail("C17|%s|%s|hooked-build-differs-from-plain" % (mode, omode), {"doc": name, "mode": omode}, "the hooked build's output differs from the unhooked one (hook not faithful?)")
        else:
            m["counters"]["hooked_equal_plain"] = m["counters"].get("hooked_equal_plain", 0) + 1
        n0 = len(work)
        for s_ in seeds:
            for t in threads:
                work.append((name, mode, raws, omode, "seed", plain, s_, t, None))
        perms = []
        if 2 <= ntasks <= max_perm_tasks:
            perms = list(itertools.permutations(range(ntasks)))
        elif ntasks > max_perm_tasks:
            ident = list(range(ntasks))
            perms = [tuple(ident), tuple(reversed(ident))]
            for i in range(ntasks - 1):
                p_ = ident[:]
                p_[i], p_[i + 1] = p_[i + 1], p_[i]
                perms.append(tuple(p_))
            m["caps"].append("%s: %d module tasks > %d: adjacent transpositions + reversal instead of all permutations" % (key, ntasks, max_perm_tasks))
        for p_ in perms:
            work.append((name, mode, raws, omode, "perm", hooked, 0, 1, p_))
        for s_ in seeds[: max(4, len(seeds) // 4)]:
            work.append((name, mode, raws, omode, "trace", hooked, s_, 1, None))
        # the build.rs sequence: a second generation into the directory that holds the first one's files
        work.append((name, mode, raws, omode, "rerun", plain, 0, 1, None))
        m["spaces"][key] = len(work) - n0

    # phase 2: every remaining run of every key in one pool
    def do(w):
        name, mode, raws, omode, kind, binp, s_, t, p_ = w
        out = os.path.join(base, "runs", "%s_%s_%s_%d_%d_%s" % (name, omode, kind, s_, t, "-".join(map(str, p_)) if p_ else "n"))
        tr2 = None
        if kind == "trace":
            tr2 = os.path.join(trace_dir, "%s_%s_seed%d.txt" % (name, omode, s_))
            if os.path.exists(tr2):
                os.remove(tr2)
        rc, h, log = run_one(binp, mode, idl_dir, name, raws, omode, out, s_, t, schedule=p_, trace=tr2)
        if kind == "rerun" and rc == 0:
            rc, h, log = run_one(binp, mode, idl_dir, name, raws, omode, out, s_, t, keep=True)
        nat = None
        if tr2 and os.path.exists(tr2):
            lines = [l for l in open(tr2).read().splitlines() if l.startswith("mods")]
            nat = "|".join(lines)
        shutil.rmtree(out, ignore_errors=True)
        return w, rc, h, log, nat

    with ThreadPoolExecutor(max_workers=vlib.NCPU) as ex:
        results = list(ex.map(do, work))
    for (name, mode, raws, omode, kind, binp, s_, t, p_), rc, h, log, nat in results:
        key = "%s/%s" % (name, omode)
        ref = refs[key]
        m["evaluations"] += 1
        m["cases_enumerated"] += 1
        case = {"doc": name, "mode": mode, "output_mode": omode, "kind": kind, "seed": s_, "threads": t, "schedule": list(p_) if p_ else None}
        if kind == "perm":
            m["states"].add("%s:perm:%s" % (key, p_))
        else:
            m["states"].add("%s:seed:%d" % (key, s_))
        m["transitions"].add("%s:%s:%d:%d:%s" % (key, kind, s_, t, p_))
        if nat is not None:
            natural_orders.setdefault(key, set()).add(nat)
        if rc != 0:
            outcome("builder-failed")
            fail("C17|%s|%s|builder-failed:%s" % (mode, omode, kind), case, log[-300:])
        elif h != ref:
            outcome("differs")
            changed = sorted(set(k_ for k_ in set(h) | set(ref) if h.get(k_) != ref.get(k_)))
            what = "file-set" if set(h) != set(ref) else "contents"
            fail("C17|%s|%s|%s-differ:%s" % (mode, omode, what, "task-order" if kind == "perm" else ("second-run-into-the-same-directory" if kind == "rerun" else "hash-seed-or-threads")), case,
                 "%d of %d files differ from the reference run (seed 0, 1 thread): %s" % (len(changed), len(ref), ", ".join(changed[:4])))
        else:
            outcome("identical")
    m["counters"]["distinct_natural_orders_realised"] = sum(len(v) for v in natural_orders.values())
    m["counters"]["keys_with_more_than_one_natural_order"] = sum(1 for v in natural_orders.values() if len(v) > 1)
    if m["counters"]["keys_with_more_than_one_natural_order"] == 0:
        m["notes"].append("WARNING: no seed changed the natural iteration order of the module map: seed control may be ineffective")
    shutil.rmtree(os.path.join(base, "runs"), ignore_errors=True)
    m["states"] = set(m["states"])
    m["transitions"] = set(m["transitions"])
    return checks.verdict("C17", tier, seed0, checks.CHECKS["C17"], m, time.time() - t0, 0.0)


def replay(path):
    r = json.load(open(path))
    c = r["case"]
    build_shim()
    base = os.path.join(WORK, "gen", "c17_replay")
    idl_dir = os.path.join(base, "idl")
    docs = [d for d in documents("thorough") if d[0] == c["doc"]]
    if not docs:
        die("unknown document")
    name, mode, raws, _ = docs[0]
    corpus.write_raw(raws, idl_dir)
    plain = gen.ensure_vgen()
    binp = build_hooked() if c.get("kind") in ("perm", "trace") else plain
    rc0, ref, _ = run_one(plain, mode, idl_dir, name, raws, c["output_mode"], os.path.join(base, "ref"), 0, 1)
    rc1, h1, _ = run_one(binp, mode, idl_dir, name, raws, c["output_mode"], os.path.join(base, "a"), c.get("seed", 0), c.get("threads", 1), schedule=c.get("schedule"))
    rc2, h2, _ = run_one(binp, mode, idl_dir, name, raws, c["output_mode"], os.path.join(base, "b"), c.get("seed", 0), c.get("threads", 1), schedule=c.get("schedule"))
    if c.get("kind") == "rerun":
        # second generation over the files of the first, in both scratch directories
        rc1, h1, _ = run_one(binp, mode, idl_dir, name, raws, c["output_mode"], os.path.join(base, "a"), 0, 1, keep=True)
        rc2, h2, _ = run_one(binp, mode, idl_dir, name, raws, c["output_mode"], os.path.join(base, "b"), 0, 1, keep=True)
    if h1 != h2:
        print("MACHINERY: the same seed/schedule gave two different outputs (nondeterminism not owned)")
        return 2
    diff = sorted(k for k in set(h1) | set(ref) if h1.get(k) != ref.get(k))
    print("OBSERVED %d differing files: %s" % (len(diff), ", ".join(diff[:6])))
    if diff or rc1 != 0:
        print("REPRODUCED " + r["sig"])
        return 1
    print("NOT-REPRODUCED " + r["sig"])
    return 0

"""Driver for the pilota verification checks.

  ./verif setup                       build all engines (offline)
  ./verif check C07 --tier quick      run one check; exit 0 / 1 (+ VIOLATION line) / 2 (machinery)
  ./verif replay replays/C07/x.json   re-run one recorded violation against the current tree
"""
import json, os, subprocess, sys, time, hashlib, shutil, signal

ROOT = os.path.dirname(os.path.dirname(os.path.abspath(__file__)))
ENG = os.path.join(ROOT, "engines")
TARGET = os.path.join(ROOT, "target", "engines")
WORK = os.path.join(ROOT, "work")
NCPU = os.cpu_count() or 4

ENV = dict(os.environ)
ENV["CARGO_NET_OFFLINE"] = "true"
ENV.pop("RUST_BACKTRACE", None)
ENV["RUST_BACKTRACE"] = "0"


def die(msg, code=2):
    print("MACHINERY-ERROR: " + msg, flush=True)
    sys.exit(code)


def build(pkg):
    """cargo build of one engine package; rebuilds against /repo's current working tree because
    the pilota crates are path dependencies."""
    lock = os.path.join(ENG, "Cargo.lock")
    if not os.path.exists(lock):
        shutil.copy("/repo/Cargo.lock", lock)
    t0 = time.time()
    r = subprocess.run(["cargo", "build", "--offline", "-q", "-p", pkg], cwd=ENG, env=ENV,
                       stdout=subprocess.PIPE, stderr=subprocess.STDOUT, text=True)
    if r.returncode != 0:
        print(r.stdout[-6000:])
        die("engine build failed: " + pkg)
    return os.path.join(TARGET, "debug", pkg), time.time() - t0


def load_known():
    p = os.path.join(ROOT, "known_findings.json")
    if not os.path.exists(p):
        return {"findings": [], "fixed": []}
    return json.load(open(p))


def run_shards(binpath, check, tier, nshards, extra_args, wdir, seed, wall_cap):
    """Runs the engine in nshards processes; a shard that dies is an observation attributed to the
    case index in its progress file, and the shard is restarted after that index."""
    os.makedirs(wdir, exist_ok=True)
    for f in os.listdir(wdir):
        if f.startswith("shard_") or f.startswith("prog_"):
            os.remove(os.path.join(wdir, f))
    procs = {}
    deaths = []
    capped = []
    results = {}
    t0 = time.time()

    skips = {}
    hangs = {}

    def start(k, resume_after=None, gen=0):
        out = os.path.join(wdir, "shard_%d_%d.json" % (k, gen))
        prog = os.path.join(wdir, "prog_%d" % k)
        cmd = [binpath, check, "--tier", tier, "--shard", "%d/%d" % (k, nshards), "--out", out,
               "--progress", prog, "--seed", str(seed)] + extra_args
        if resume_after is not None:
            cmd += ["--resume-after", str(resume_after)]
        if skips.get(k):
            cmd += ["--skip", ",".join(str(x) for x in sorted(skips[k]))]
        log = open(os.path.join(wdir, "shard_%d.log" % k), "ab")
        p = subprocess.Popen(cmd, cwd=ROOT, env=ENV, stdout=log, stderr=log)
        procs[k] = (p, out, prog, gen, resume_after)

    for k in range(nshards):
        start(k)
    restarts = 0
    tagged_restarts = 0
    while procs:
        time.sleep(0.05)
        for k in list(procs):
            p, out, prog, gen, resumed_from = procs[k]
            rc = p.poll()
            if rc is None:
                if time.time() - t0 > wall_cap:
                    # out of time: stop every worker, keep what they had checkpointed; with failures
                    # already observed (deaths, hangs, recorded violations) that is still a verdict,
                    # without any it is a machinery error (the check could not finish)
                    for kk in list(procs):
                        pp, oo = procs[kk][0], procs[kk][1]
                        pp.kill()
                        pp.wait()
                        if os.path.exists(oo + ".ckpt"):
                            results.setdefault(kk, []).append(oo + ".ckpt")
                    unfinished = sorted(procs)
                    procs.clear()
                    seen_fail = bool(deaths)
                    for paths in results.values():
                        for path in paths:
                            try:
                                seen_fail = seen_fail or bool(json.load(open(path)).get("failures"))
                            except Exception:
                                pass
                    if not seen_fail:
                        die("shard %d exceeded the wall cap of %ds" % (k, wall_cap))
                    capped.append("wall cap of %ds reached; shards %s unfinished" % (wall_cap, unfinished))
                    break
                continue
            del procs[k]
            if rc == 0 and os.path.exists(out):
                results.setdefault(k, []).append(out)
                continue
            if rc == 2:
                tail = open(os.path.join(wdir, "shard_%d.log" % k), "rb").read()[-2000:].decode("utf8", "replace")
                print(tail)
                die("engine reported a machinery error (shard %d)" % k)
            # death: signal or abort
            idx = None
            tag = 0
            try:
                import struct
                raw = open(prog, "rb").read(16)
                idx, tag = struct.unpack("<QQ", raw.ljust(16, b"\0"))
                if idx == 0xFFFFFFFFFFFFFFFF:
                    idx = None
            except Exception:
                pass
            tail = open(os.path.join(wdir, "shard_%d.log" % k), "rb").read()[-600:].decode("utf8", "replace")
            if idx is None:
                print(tail)
                die("shard %d died (rc=%s) before announcing a case" % (k, rc))
            deaths.append({"shard": k, "index": idx, "rc": rc, "log_tail": tail, "tag": tag, "hang": rc == 86})
            # deaths on cases the harness tagged as belonging to a recorded construct do not count
            # against the restart budget (otherwise a recorded defect would stop the whole run)
            if tag == 0:
                restarts += 1
            else:
                tagged_restarts += 1
            if rc == 86:
                # every hung case costs the watchdog limit; two per shard are enough for a verdict
                hangs[k] = hangs.get(k, 0) + 1
                if hangs[k] >= 2:
                    capped.append("shard %d stopped after %d hung cases" % (k, hangs[k]))
                    if os.path.exists(out + ".ckpt"):
                        results.setdefault(k, []).append(out + ".ckpt")
                    continue
            if restarts > 8 * nshards or tagged_restarts > 3000:
                # a defect that kills the worker on very many cases: stop restarting, keep the
                # deaths observed so far as the verdict (the run is reported as capped)
                capped.append("stopped restarting workers after %d deaths; shard %d not finished" % (restarts + tagged_restarts, k))
                continue
            if os.path.exists(out + ".slowstop"):
                capped.append("shard %d had stopped after 8 slow executions and then died; not restarted" % k)
                if os.path.exists(out + ".ckpt"):
                    results.setdefault(k, []).append(out + ".ckpt")
                continue
            # keep what the dead worker had checkpointed; redo from there, skipping the fatal case
            skips.setdefault(k, set()).add(idx)
            ck = out + ".ckpt"
            resume = resumed_from
            if os.path.exists(ck):
                try:
                    upto = json.load(open(ck)).get("checkpoint_upto")
                    if upto is not None and (resume is None or upto > resume):
                        results.setdefault(k, []).append(ck)
                        resume = upto
                except Exception:
                    pass
            start(k, resume_after=resume, gen=gen + 1)
    # A hang is only a verdict if it reproduces. A worker can stall for a long time without the
    # code under test being at fault (memory reclaim while sixteen workers touch gigabytes, a paused
    # VM, a saturated host): the cases that tripped the watchdog are re-run alone, one at a time,
    # with twice the limit. A case that finishes then was not hung; its result is merged like any
    # other. Up to three are re-run; the rest follow the verdict of those three.
    hangs_seen = [d for d in deaths if d.get("hang")]
    if hangs_seen:
        limit = 2 * int(os.environ.get("VERIF_CASE_TIMEOUT_S", "120" if tier == "thorough" else "45"))
        confirmed, cleared = 0, 0
        verified = {}
        for d in hangs_seen[:3]:
            idx = d["index"]
            if idx in verified:
                continue
            out = os.path.join(wdir, "rerun_%d.json" % idx)
            prog = os.path.join(wdir, "rerun_prog_%d" % idx)
            env = dict(ENV, VERIF_CASE_TIMEOUT_S=str(limit))
            cmd = [binpath, check, "--tier", tier, "--shard", "0/1", "--only", str(idx), "--out", out, "--progress", prog, "--seed", str(seed)] + extra_args
            log = open(os.path.join(wdir, "rerun_%d.log" % idx), "ab")
            try:
                rc = subprocess.run(cmd, cwd=ROOT, env=env, stdout=log, stderr=log, timeout=limit + 120).returncode
            except subprocess.TimeoutExpired:
                rc = 86
            verified[idx] = rc
            if rc == 86:
                confirmed += 1
            elif rc == 0 and os.path.exists(out):
                cleared += 1
                results.setdefault(d["shard"], []).append(out)
            else:
                # it died some other way when run alone: keep that observation instead
                d["hang"] = False
                d["rc"] = rc
                confirmed += 1
        if confirmed == 0:
            dropped = [d for d in deaths if d.get("hang")]
            deaths = [d for d in deaths if not d.get("hang")]
            capped.append("%d case(s) exceeded the per-execution watchdog while all workers were running but finished when re-run "
                          "alone with twice the limit (%d re-run, indices %s): counted as stalls of the host, not as hangs"
                          % (len(dropped), cleared, sorted(verified)))
        else:
            deaths = [d for d in deaths if not (d.get("hang") and verified.get(d["index"]) == 0)]
    return results, deaths, time.time() - t0, capped


def merge(results):
    m = {"evaluations": 0, "nontrivial": 0, "states": set(), "transitions": set(), "outcomes": {},
         "samples": [], "failures": {}, "caps": [], "spaces": {}, "counters": {}, "notes": [],
         "cases_enumerated": 0}
    for k in sorted(results):
        for path in results[k]:
            d = json.load(open(path))
            m["cases_enumerated"] = max(m["cases_enumerated"], d.get("cases_enumerated", 0))
            m["evaluations"] += d["evaluations"]
            m["nontrivial"] += d["nontrivial"]
            m["states"].update(d["states"])
            m["transitions"].update(d["transitions"])
            for a, b in d["outcomes"].items():
                m["outcomes"][a] = m["outcomes"].get(a, 0) + b
            for a, b in d["spaces"].items():
                m["spaces"][a] = m["spaces"].get(a, 0) + b
            for a, b in d["counters"].items():
                m["counters"][a] = m["counters"].get(a, 0) + b
            for s in d["samples"]:
                if len(m["samples"]) < 12 and s not in m["samples"]:
                    m["samples"].append(s)
            for c in d["caps"]:
                if c not in m["caps"]:
                    m["caps"].append(c)
            for n in d["notes"]:
                if n not in m["notes"]:
                    m["notes"].append(n)
            for f in d["failures"]:
                g = m["failures"].get(f["sig"])
                if g is None:
                    m["failures"][f["sig"]] = dict(f)
                else:
                    g["count"] += f["count"]
                    if f["first_index"] < g["first_index"]:
                        g["first_index"] = f["first_index"]
                        g["case"] = f["case"]
                        g["detail"] = f["detail"]
    return m




def merge_two(a, b):
    a["cases_enumerated"] += b["cases_enumerated"]
    a["evaluations"] += b["evaluations"]
    a["nontrivial"] += b["nontrivial"]
    a["states"].update(b["states"])
    a["transitions"].update(b["transitions"])
    for k in ("outcomes", "spaces", "counters"):
        for x, y in b[k].items():
            a[k][x] = a[k].get(x, 0) + y
    for s in b["samples"]:
        if len(a["samples"]) < 16 and s not in a["samples"]:
            a["samples"].append(s)
    for k in ("caps", "notes"):
        for x in b[k]:
            if x not in a[k]:
                a[k].append(x)
    for sig, f in b["failures"].items():
        if sig in a["failures"]:
            a["failures"][sig]["count"] += f["count"]
        else:
            a["failures"][sig] = f
    return a

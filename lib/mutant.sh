#!/bin/bash
# usage: lib/mutant.sh <patch.diff> <check id>... ; applies the patch to /repo, runs the quick checks, reverts
set -u
patch="$(readlink -f "$1")"; shift
cd /repo || exit 2
if ! git diff --quiet; then echo "repo dirty"; exit 2; fi
git apply "$patch" || { echo "patch does not apply"; exit 2; }
cd /verif
for c in "$@"; do
  echo "=== $c with $(basename $(dirname $patch))"
  ./verif check "$c" --tier "${TIER:-quick}" > /verif/work/mutant_$c.log 2>&1; rc=$?
  grep -E "^VIOLATION|^KNOWN|MACHINERY" /verif/work/mutant_$c.log | head -8
  tail -1 /verif/work/mutant_$c.log
  echo "rc=$rc"
done
git -C /repo checkout -- .
# restore evidence/replays produced while the mutant was applied
git -C /verif checkout -- evidence 2>/dev/null

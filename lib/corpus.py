"""IDL corpora (DESIGN §2): documents are built from enumerated constructs; every document comes with
a schema description (types, fields, wire types, defaults as dynamic values) computed here, i.e.
independently of pilota."""
import json, struct, os, itertools

BASE = ["bool", "byte", "i8", "i16", "i32", "i64", "double", "string", "binary", "uuid"]
WIRE = {"bool": "Bool", "byte": "I8", "i8": "I8", "i16": "I16", "i32": "I32", "i64": "I64", "double": "Double",
        "string": "Bin", "binary": "Bin", "uuid": "Uuid"}


# ---- types -----------------------------------------------------------------------------------
def b(name):
    return {"t": name}


def lst(e):
    return {"t": "list", "e": e}


def st(e):
    return {"t": "set", "e": e}


def mp(k, v):
    return {"t": "map", "k": k, "v": v}


def ref(name):
    return {"t": "ref", "name": name}


def idl_ty(t):
    k = t["t"]
    if k in BASE:
        return k
    if k == "list":
        return "list<%s>" % idl_ty(t["e"])
    if k == "set":
        return "set<%s>" % idl_ty(t["e"])
    if k == "map":
        return "map<%s, %s>" % (idl_ty(t["k"]), idl_ty(t["v"]))
    if k == "ref":
        return t.get("qual", t["name"])
    raise ValueError(k)


# ---- dynamic values (serde form of vcore::val::Val) -----------------------------------------------
def vBool(x):
    return {"Bool": bool(x)}


def vI(kind, x):
    return {kind: int(x)}


def vDouble(x):
    return {"Double": struct.unpack(">Q", struct.pack(">d", float(x)))[0]}


def vBin(s):
    if isinstance(s, str):
        s = s.encode()
    return {"Bin": list(s)}


def vList(et, items):
    return {"List": [et, items]}


def vSet(et, items):
    return {"Set": [et, items]}


def vMap(kt, vt, items):
    return {"Map": [kt, vt, [[k, v] for k, v in items]]}


def vStruct(fields):
    return {"Struct": [[i, v] for i, v in fields]}


# ---- declarations ---------------------------------------------------------------------------------
class Doc:
    def __init__(self, name, namespace=None):
        self.name = name
        self.namespace = namespace
        self.includes = []
        self.decls = []  # (kind, text)
        self.types = []  # schema entries
        self.arg_refs = set()  # names of types referenced from method argument types

    def include(self, other):
        self.includes.append(other)

    def typedef(self, name, ty, ann=""):
        self.decls.append("typedef %s %s%s" % (idl_ty(ty), name, ann))
        self.types.append({"name": name, "kind": "typedef", "ty": ty})

    def const(self, name, ty, lit):
        self.decls.append("const %s %s = %s" % (idl_ty(ty), name, lit))

    def enum(self, name, values):
        body = "\n".join("    %s = %d," % (n, v) for n, v in values)
        self.decls.append("enum %s {\n%s\n}" % (name, body))
        self.types.append({"name": name, "kind": "enum", "values": [[n, v] for n, v in values]})

    def _fields_text(self, fields):
        out = []
        for f in fields:
            req = {"required": "required ", "optional": "optional ", "default": ""}[f["req"]]
            d = " = %s" % f["lit"] if f.get("lit") is not None else ""
            out.append("    %d: %s%s %s%s%s," % (f["id"], req, idl_ty(f["ty"]), f["name"], d, f.get("ann", "")))
        return "\n".join(out)

    def struct(self, name, fields, kind="struct", ann=""):
        kw = {"struct": "struct", "exception": "exception", "union": "union"}[kind]
        self.decls.append("%s %s {\n%s\n}%s" % (kw, name, self._fields_text(fields), ann))
        self.types.append({"name": name, "kind": "union" if kind == "union" else "struct",
                           "fields": [schema_field(f) for f in fields]})

    def service(self, name, methods, extends=None):
        lines = []
        for m in methods:
            args = ", ".join("%d: %s%s %s" % (a["id"], {"required": "required ", "optional": "optional "}.get(a["req"], ""), idl_ty(a["ty"]), a["name"]) for a in m["args"])
            thr = ""
            if m.get("throws"):
                thr = " throws (" + ", ".join("%d: %s %s" % (t["id"], idl_ty(t["ty"]), t["name"]) for t in m["throws"]) + ")"
            ret = "void" if m["ret"] is None else idl_ty(m["ret"])
            lines.append("    %s%s %s(%s)%s," % ("oneway " if m.get("oneway") else "", ret, m["name"], args, thr))
        ext = " extends %s" % extends if extends else ""
        self.decls.append("service %s%s {\n%s\n}" % (name, ext, "\n".join(lines)))
        for m in methods:
            mname = upper_camel(m["name"])
            # pilota treats every argument that is not explicitly optional as required
            argf = [schema_field(dict(a, req=("optional" if a["req"] == "optional" else "required"))) for a in m["args"]]
            # pilota's "args" set: every type named in an argument type, the return type or throws
            for a_ in m["args"] + m.get("throws", []):
                self.arg_refs |= refs_in(a_["ty"])
            if m["ret"] is not None:
                self.arg_refs |= refs_in(m["ret"])
            for suffix in ["ArgsSend", "ArgsRecv"]:
                self.types.append({"name": name + mname + suffix, "kind": "struct", "fields": argf, "synth": True, "is_arg": True})
            variants = []
            if m["ret"] is not None:
                variants.append({"id": 0, "name": "Ok", "req": "optional", "ty": m["ret"], "default": None})
            for t in m.get("throws", []):
                variants.append(schema_field(dict(t, req="optional")))
            if not m.get("oneway"):
                for suffix in ["ResultSend", "ResultRecv"]:
                    self.types.append({"name": name + mname + suffix, "kind": "union", "fields": variants, "synth": True,
                                       "void_ok": m["ret"] is None})
            if m.get("throws"):
                self.types.append({"name": name + mname + "Exception", "kind": "union",
                                   "fields": [schema_field(dict(t, req="optional")) for t in m["throws"]], "synth": True})

    def text(self):
        head = []
        for inc in self.includes:
            head.append('include "%s.thrift"' % inc)
        if self.namespace:
            head.append("namespace rs %s" % self.namespace)
        return "\n".join(head) + ("\n\n" if head else "") + "\n\n".join(self.decls) + "\n"


def refs_in(t):
    k = t["t"]
    if k == "ref":
        return {t["name"]}
    if k in ("list", "set"):
        return refs_in(t["e"])
    if k == "map":
        return refs_in(t["k"]) | refs_in(t["v"])
    return set()


def upper_camel(s):
    # heck::ToUpperCamelCase for the simple names used in the semantic corpora
    parts = []
    cur = ""
    for ch in s:
        if ch == "_":
            if cur:
                parts.append(cur)
            cur = ""
        elif ch.isupper() and cur and not cur[-1].isupper():
            parts.append(cur)
            cur = ch
        else:
            cur += ch
    if cur:
        parts.append(cur)
    return "".join(p[:1].upper() + p[1:].lower() if p.isupper() and len(p) > 1 else p[:1].upper() + p[1:] for p in parts)


def schema_field(f):
    return {"id": f["id"], "name": f["name"], "req": f["req"], "ty": f["ty"], "default": f.get("default")}


def fld(id, name, ty, req="optional", lit=None, default=None, ann=""):
    return {"id": id, "name": name, "ty": ty, "req": req, "lit": lit, "default": default, "ann": ann}


# ---- the semantic Thrift corpus -------------------------------------------------------------------
def thrift_sem():
    docs = []
    # T1/T2: scalars in every requiredness
    d = Doc("scalars")
    for req, nm in [("optional", "SOpt"), ("required", "SReq"), ("default", "SDef")]:
        d.struct(nm, [fld(i + 1, "f_%s" % t, b(t), req) for i, t in enumerate(BASE)])
    ids = [1, 2, 15, 16, 17, 127, 128, 255, 256, 32767]
    kinds = ["i32", "bool", "string", "i64", "bool", "double", "i16", "binary", "i8", "bool"]
    d.struct("SIds", [fld(i, "f%d" % i, b(k)) for i, k in zip(ids, kinds)])
    d.struct("SIdsDesc", [fld(i, "f%d" % i, b(k)) for i, k in reversed(list(zip(ids, kinds)))])
    d.struct("SIdZero", [fld(0, "z", b("i32")), fld(1, "o", b("bool"), "required")])
    d.struct("SEmpty", [])
    docs.append(d)

    # containers depth 2 and 3
    d = Doc("containers")
    d.struct("CList", [fld(i + 1, "l_%s" % t, lst(b(t))) for i, t in enumerate(BASE)])
    hashable = [t for t in BASE]
    d.struct("CSet", [fld(i + 1, "s_%s" % t, st(b(t))) for i, t in enumerate(hashable)])
    d.struct("CMapK", [fld(i + 1, "m_%s" % t, mp(b(t), b("i32"))) for i, t in enumerate(hashable)])
    d.struct("CMapV", [fld(i + 1, "m_%s" % t, mp(b("i32"), b(t))) for i, t in enumerate(BASE)])
    d.struct("CReq", [fld(1, "l", lst(b("i32")), "required"), fld(2, "s", st(b("string")), "required"),
                      fld(3, "m", mp(b("string"), b("bool")), "required")])
    deep = [lst(lst(b("i32"))), lst(st(b("string"))), lst(mp(b("i32"), b("string"))), st(lst(b("i32"))),
            mp(b("string"), lst(b("i32"))), mp(b("i32"), st(b("i32"))), mp(b("i32"), mp(b("string"), b("bool"))),
            mp(lst(b("i32")), b("i32")), lst(lst(b("bool"))), lst(lst(b("double"))), mp(b("double"), lst(b("double"))),
            lst(mp(b("bool"), b("bool")))]
    d.struct("CDeep", [fld(i + 1, "d%d" % (i + 1), t) for i, t in enumerate(deep)])
    docs.append(d)

    # named types in every position
    d = Doc("named")
    d.enum("E1", [("A", 0), ("B", 5), ("C", 127), ("D", 70000)])
    d.struct("Inner", [fld(1, "a", b("i32")), fld(2, "b", b("string"))])
    d.struct("InnerReq", [fld(1, "a", b("i32"), "required"), fld(3, "flag", b("bool"), "required")])
    d.struct("U1", [fld(1, "a", b("i32")), fld(2, "b", b("string")), fld(3, "c", ref("Inner")), fld(4, "d", lst(b("i32"))),
                    fld(5, "e", ref("E1")), fld(6, "f", b("bool")), fld(7, "g", mp(b("i32"), b("string")))], kind="union")
    d.struct("U0", [], kind="union")
    d.struct("U1only", [fld(9, "x", b("double"))], kind="union")
    d.struct("Ex1", [fld(1, "msg", b("string")), fld(2, "code", b("i32"))], kind="exception")
    d.typedef("TdI32", b("i32"))
    d.typedef("TdStr", b("string"))
    d.typedef("TdList", lst(ref("Inner")))
    d.typedef("TdInner", ref("Inner"))
    d.typedef("TdEnum", ref("E1"))
    d.typedef("TdTd", ref("TdI32"))
    d.typedef("TdMap", mp(b("string"), ref("E1")))
    fields = []
    i = 1
    for nm, t in [("e", ref("E1")), ("s", ref("Inner")), ("u", ref("U1")), ("ti", ref("TdI32")), ("tl", ref("TdList")),
                  ("tn", ref("TdInner")), ("te", ref("TdEnum")), ("tt", ref("TdTd")), ("ts", ref("TdStr")), ("tm", ref("TdMap")),
                  ("x", ref("Ex1")), ("sr", ref("InnerReq"))]:
        fields.append(fld(i, "f_%s" % nm, t)); i += 1
        fields.append(fld(i, "l_%s" % nm, lst(t))); i += 1
        fields.append(fld(i, "mv_%s" % nm, mp(b("i32"), t))); i += 1
    for nm, t in [("e", ref("E1")), ("s", ref("Inner")), ("ti", ref("TdI32")), ("te", ref("TdEnum")), ("ts", ref("TdStr"))]:
        fields.append(fld(i, "set_%s" % nm, st(t))); i += 1
        fields.append(fld(i, "mk_%s" % nm, mp(t, b("i32")))); i += 1
    d.struct("SNamed", fields)
    d.struct("SNamedReq", [fld(1, "e", ref("E1"), "required"), fld(2, "s", ref("Inner"), "required"), fld(3, "u", ref("U1"), "required"),
                           fld(4, "t", ref("TdTd"), "required")])
    docs.append(d)

    # recursion
    d = Doc("recursive")
    d.struct("Node", [fld(1, "next", ref("Node")), fld(2, "v", b("i32"))])
    d.struct("RecA", [fld(1, "b", ref("RecB")), fld(2, "n", b("i16"))])
    d.struct("RecB", [fld(1, "a", ref("RecA")), fld(2, "s", b("string"))])
    d.struct("Tree", [fld(1, "kids", lst(ref("Tree"))), fld(2, "tag", b("bool"))])
    d.struct("MapRec", [fld(1, "m", mp(b("string"), ref("MapRec"))), fld(2, "leaf", b("i8"))])
    docs.append(d)

    # defaults (T6)
    d = Doc("defaults")
    d.enum("Color", [("Red", 1), ("Green", 2), ("Blue", 7)])
    d.const("C_STR", b("string"), '"from-const"')
    d.const("C_INT", b("i32"), "42")
    d.typedef("TdI64", b("i64"))
    d.typedef("TdName", b("string"))
    # field names in every spelling style: the literal's keys are IDL names, not Rust names
    d.struct("Pt", [fld(1, "xPos", b("i32")), fld(2, "Y", b("i32")), fld(3, "label_text", b("string")), fld(4, "type", b("string")),
                    fld(5, "HTTPCode", b("i16"))])
    cases = [
        ("i8v", b("i8"), "7", vI("I8", 7)), ("i16v", b("i16"), "-300", vI("I16", -300)), ("i32v", b("i32"), "70000", vI("I32", 70000)),
        ("i64v", b("i64"), "5000000000", vI("I64", 5000000000)), ("bt", b("bool"), "true", vBool(True)),
        ("bf", b("bool"), "false", vBool(False)), ("b1", b("bool"), "1", vBool(True)), ("b0", b("bool"), "0", vBool(False)),
        ("dint", b("double"), "3", vDouble(3)), ("ddbl", b("double"), "2.5", vDouble(2.5)), ("dneg", b("double"), "-0.125", vDouble(-0.125)),
        ("s", b("string"), '"hello"', vBin("hello")), ("sempty", b("string"), '""', vBin("")), ("bin", b("binary"), '"raw"', vBin("raw")),
        ("en", ref("Color"), "Color.Green", vI("I32", 2)), ("enum_num", ref("Color"), "7", vI("I32", 7)),
        ("cstr", b("string"), "C_STR", vBin("from-const")), ("cint", b("i32"), "C_INT", vI("I32", 42)),
        ("e2i", b("i32"), "Color.Blue", vI("I32", 7)),
        ("le", lst(b("i32")), "[]", vList("I32", [])), ("l3", lst(b("i32")), "[1, 2, 3]", vList("I32", [vI("I32", 1), vI("I32", 2), vI("I32", 3)])),
        ("ls", lst(b("string")), '["a", "b"]', vList("Bin", [vBin("a"), vBin("b")])),
        ("se", st(b("i32")), "[]", vSet("I32", [])), ("s2", st(b("string")), '["x"]', vSet("Bin", [vBin("x")])),
        ("me", mp(b("string"), b("i32")), "{}", vMap("Bin", "I32", [])), ("m1", mp(b("string"), b("i32")), '{"k": 1}', vMap("Bin", "I32", [(vBin("k"), vI("I32", 1))])),
        ("mlist", mp(b("string"), b("string")), "[]", vMap("Bin", "Bin", [])),
        ("td", ref("TdI64"), "99", vI("I64", 99)), ("tdn", ref("TdName"), '"nm"', vBin("nm")),
        ("pt", ref("Pt"), '{"xPos": 1, "Y": 2, "label_text": "p", "type": "t", "HTTPCode": 404}',
         vStruct([(1, vI("I32", 1)), (2, vI("I32", 2)), (3, vBin("p")), (4, vBin("t")), (5, vI("I16", 404))])),
        ("pt_part", ref("Pt"), '{"Y": 9}', vStruct([(2, vI("I32", 9))])),
    ]
    for req, nm in [("optional", "DOpt"), ("required", "DReq"), ("default", "DDef")]:
        d.struct(nm, [fld(i + 1, n, t, req, lit=lit, default=val) for i, (n, t, lit, val) in enumerate(cases)])
    docs.append(d)

    # annotations
    d = Doc("annotated")
    d.struct("AInner", [fld(1, "v", b("i32"))])
    d.struct("AStr", [fld(1, "fast", b("string"), "required"), fld(2, "std", b("string"), "required", ann='(pilota.rust_type = "string")'),
                      fld(3, "ostd", b("string"), ann='(pilota.rust_type = "string")'),
                      fld(4, "bytes", b("binary"), "required"), fld(5, "vec", b("binary"), "required", ann='(pilota.rust_type = "vec")'),
                      fld(6, "ovec", b("binary"), ann='(pilota.rust_type = "vec")'),
                      fld(7, "lstd", lst(b("string")), ann='(pilota.rust_type = "string")')])
    d.struct("ABtree", [fld(1, "m", mp(b("i32"), lst(ref("AInner"))), "required", ann='(pilota.rust_type = "btree")'),
                        fld(2, "s", st(b("i32")), "required", ann='(pilota.rust_type = "btree")'),
                        fld(3, "om", mp(b("string"), b("i64")), ann='(pilota.rust_type = "btree")'),
                        fld(4, "os", st(b("string")), ann='(pilota.rust_type = "btree")')])
    d.struct("AArc", [fld(1, "id", b("string"), "required"),
                      fld(2, "ll", lst(lst(ref("AInner"))), "required", ann='(pilota.rust_wrapper_arc="true")'),
                      fld(3, "ml", mp(b("i32"), lst(ref("AInner"))), "required", ann='(pilota.rust_wrapper_arc="true")'),
                      fld(4, "one", ref("AInner"), ann='(pilota.rust_wrapper_arc="true")'),
                      fld(5, "s", b("string"), ann='(pilota.rust_type = "string", pilota.rust_wrapper_arc="true")'),
                      fld(6, "v", b("binary"), ann='(pilota.rust_type = "vec", pilota.rust_wrapper_arc="true")')])
    docs.append(d)

    # services
    d = Doc("service")
    d.struct("Req", [fld(1, "key", b("string"), "required"), fld(2, "n", b("i32")), fld(3, "flag", b("bool"))])
    d.struct("Resp", [fld(1, "vals", lst(b("i64"))), fld(2, "ok", b("bool"), "required")])
    d.struct("Ex2", [fld(1, "why", b("string"))], kind="exception")
    d.struct("Ex3", [fld(1, "code", b("i32"), "required")], kind="exception")
    d.struct("Holder", [fld(1, "r", ref("Req")), fld(2, "rs", lst(ref("Req"))), fld(3, "m", mp(b("i32"), ref("Req")))])
    a = lambda i, n, t, req="default": {"id": i, "name": n, "ty": t, "req": req}
    d.service("Svc", [
        {"name": "ping", "args": [], "ret": None},
        {"name": "add", "args": [a(1, "x", b("i32")), a(2, "y", b("i32"))], "ret": b("i32")},
        {"name": "get", "args": [a(1, "req", ref("Req"))], "ret": ref("Resp"), "throws": [a(1, "e", ref("Ex2"))]},
        {"name": "getTwo", "args": [a(1, "key", b("string"), "required"), a(2, "req", ref("Req")), a(3, "flag", b("bool"))], "ret": lst(b("string")),
         "throws": [a(1, "e", ref("Ex2")), a(2, "f", ref("Ex3"))]},
        {"name": "many", "args": [a(1, "xs", lst(b("string"))), a(2, "m", mp(b("i32"), ref("Req")))], "ret": mp(b("string"), b("i32"))},
        {"name": "flagIt", "args": [a(1, "on", b("bool"), "required"), a(2, "maybe", b("i64"), "optional"), a(3, "h", ref("Holder"), "optional")], "ret": b("bool")},
    ])
    docs.append(d)
    return docs


def write_corpus(docs, outdir):
    os.makedirs(outdir, exist_ok=True)
    schema = {"docs": []}
    for d in docs:
        p = os.path.join(outdir, d.name + ".thrift")
        txt = d.text()
        if not os.path.exists(p) or open(p).read() != txt:
            open(p, "w").write(txt)
        # arg_ref: the type itself is in pilota's "args" set, or it (transitively) contains one
        byname = {t["name"]: t for t in d.types}

        def reach(t, seen):
            if t["name"] in seen:
                return False
            seen.add(t["name"])
            if t["name"] in d.arg_refs:
                return True
            tys = [f["ty"] for f in t.get("fields", [])] + ([t["ty"]] if t.get("ty") else [])
            for ty in tys:
                for r in refs_in(ty):
                    if r in byname and reach(byname[r], seen):
                        return True
            return False

        for t in d.types:
            t["arg_ref"] = reach(t, set())
        schema["docs"].append({"name": d.name, "file": d.name + ".thrift", "namespace": d.namespace, "types": d.types})
    sp = os.path.join(outdir, "schema.json")
    txt = json.dumps(schema)
    if not os.path.exists(sp) or open(sp).read() != txt:
        open(sp, "w").write(txt)
    return schema


if __name__ == "__main__":
    import sys
    docs = thrift_sem()
    s = write_corpus(docs, sys.argv[1])
    print(sum(len(d["types"]) for d in s["docs"]), "types in", len(s["docs"]), "documents")

"""IDL corpora (DESIGN §2): documents are built from enumerated constructs; every document comes with
a schema description (types, fields, wire types, defaults as dynamic values) computed here, i.e.
independently of pilota."""
import json, struct, os, itertools

BASE = ["bool", "byte", "i8", "i16", "i32", "i64", "double", "string", "binary", "uuid"]
WIRE = {"bool": "Bool", "byte": "I8", "i8": "I8", "i16": "I16", "i32": "I32", "i64": "I64", "double": "Double",
        "string": "Bin", "binary": "Bin", "uuid": "Uuid"}


# ---- types -----------------------------------------------------------------------------------
def b(name):
    return {"t": name}


def lst(e):
    return {"t": "list", "e": e}


def st(e):
    return {"t": "set", "e": e}


def mp(k, v):
    return {"t": "map", "k": k, "v": v}


def ref(name):
    return {"t": "ref", "name": name}


def idl_ty(t):
    k = t["t"]
    if k in BASE:
        return k
    if k == "list":
        return "list<%s>" % idl_ty(t["e"])
    if k == "set":
        return "set<%s>" % idl_ty(t["e"])
    if k == "map":
        return "map<%s, %s>" % (idl_ty(t["k"]), idl_ty(t["v"]))
    if k == "ref":
        return t.get("qual", t["name"])
    raise ValueError(k)


# ---- dynamic values (serde form of vcore::val::Val) -----------------------------------------------
def vBool(x):
    return {"Bool": bool(x)}


def vI(kind, x):
    return {kind: int(x)}


def vDouble(x):
    return {"Double": struct.unpack(">Q", struct.pack(">d", float(x)))[0]}


def vBin(s):
    if isinstance(s, str):
        s = s.encode()
    return {"Bin": list(s)}


def vList(et, items):
    return {"List": [et, items]}


def vSet(et, items):
    return {"Set": [et, items]}


def vMap(kt, vt, items):
    return {"Map": [kt, vt, [[k, v] for k, v in items]]}


def vStruct(fields):
    return {"Struct": [[i, v] for i, v in fields]}


# ---- declarations ---------------------------------------------------------------------------------
class Doc:
    def __init__(self, name, namespace=None):
        self.name = name
        self.namespace = namespace
        self.includes = []
        self.decls = []  # (kind, text)
        self.types = []  # schema entries
        self.arg_refs = set()  # names of types referenced from method argument types

    def include(self, other):
        self.includes.append(other)

    def typedef(self, name, ty, ann=""):
        self.decls.append("typedef %s %s%s" % (idl_ty(ty), name, ann))
        self.types.append({"name": name, "kind": "typedef", "ty": ty})

    def const(self, name, ty, lit):
        self.decls.append("const %s %s = %s" % (idl_ty(ty), name, lit))

    def enum(self, name, values):
        body = "\n".join("    %s = %d," % (n, v) for n, v in values)
        self.decls.append("enum %s {\n%s\n}" % (name, body))
        self.types.append({"name": name, "kind": "enum", "values": [[n, v] for n, v in values]})

    def _fields_text(self, fields):
        out = []
        for f in fields:
            req = {"required": "required ", "optional": "optional ", "default": ""}[f["req"]]
            d = " = %s" % f["lit"] if f.get("lit") is not None else ""
            out.append("    %d: %s%s %s%s%s," % (f["id"], req, idl_ty(f["ty"]), f["name"], d, f.get("ann", "")))
        return "\n".join(out)

    def struct(self, name, fields, kind="struct", ann=""):
        kw = {"struct": "struct", "exception": "exception", "union": "union"}[kind]
        self.decls.append("%s %s {\n%s\n}%s" % (kw, name, self._fields_text(fields), ann))
        self.types.append({"name": name, "kind": "union" if kind == "union" else "struct",
                           "fields": [schema_field(f) for f in fields]})

    def service(self, name, methods, extends=None):
        lines = []
        for m in methods:
            args = ", ".join("%d: %s%s %s" % (a["id"], {"required": "required ", "optional": "optional "}.get(a["req"], ""), idl_ty(a["ty"]), a["name"]) for a in m["args"])
            thr = ""
            if m.get("throws"):
                thr = " throws (" + ", ".join("%d: %s %s" % (t["id"], idl_ty(t["ty"]), t["name"]) for t in m["throws"]) + ")"
            ret = "void" if m["ret"] is None else idl_ty(m["ret"])
            lines.append("    %s%s %s(%s)%s," % ("oneway " if m.get("oneway") else "", ret, m["name"], args, thr))
        ext = " extends %s" % extends if extends else ""
        self.decls.append("service %s%s {\n%s\n}" % (name, ext, "\n".join(lines)))
        for m in methods:
            mname = upper_camel(m["name"])
            # pilota treats every argument that is not explicitly optional as required
            argf = [schema_field(dict(a, req=("optional" if a["req"] == "optional" else "required"))) for a in m["args"]]
            # pilota's "args" set: a named type that IS an argument type, the return type or a throws
            # type (the resolver does not carry the flag into container element types)
            direct = lambda t: {t["name"]} if t["t"] == "ref" else set()
            for a_ in m["args"] + m.get("throws", []):
                self.arg_refs |= direct(a_["ty"])
            if m["ret"] is not None:
                self.arg_refs |= direct(m["ret"])
            for suffix in ["ArgsSend", "ArgsRecv"]:
                self.types.append({"name": name + mname + suffix, "kind": "struct", "fields": argf, "synth": True, "is_arg": True})
            variants = []
            if m["ret"] is not None:
                variants.append({"id": 0, "name": "Ok", "req": "optional", "ty": m["ret"], "default": None})
            for t in m.get("throws", []):
                variants.append(schema_field(dict(t, req="optional")))
            if not m.get("oneway"):
                for suffix in ["ResultSend", "ResultRecv"]:
                    self.types.append({"name": name + mname + suffix, "kind": "union", "fields": variants, "synth": True,
                                       "void_ok": m["ret"] is None})
            if m.get("throws"):
                self.types.append({"name": name + mname + "Exception", "kind": "union",
                                   "fields": [schema_field(dict(t, req="optional")) for t in m["throws"]], "synth": True})

    def text(self):
        head = []
        for inc in self.includes:
            head.append('include "%s.thrift"' % inc)
        if self.namespace:
            head.append("namespace rs %s" % self.namespace)
        return "\n".join(head) + ("\n\n" if head else "") + "\n\n".join(self.decls) + "\n"


def refs_in(t):
    k = t["t"]
    if k == "ref":
        return {t["name"]}
    if k in ("list", "set"):
        return refs_in(t["e"])
    if k == "map":
        return refs_in(t["k"]) | refs_in(t["v"])
    return set()


def upper_camel(s):
    # heck::ToUpperCamelCase for the simple names used in the semantic corpora
    parts = []
    cur = ""
    for ch in s:
        if ch == "_":
            if cur:
                parts.append(cur)
            cur = ""
        elif ch.isupper() and cur and not cur[-1].isupper():
            parts.append(cur)
            cur = ch
        else:
            cur += ch
    if cur:
        parts.append(cur)
    return "".join(p[:1].upper() + p[1:].lower() if p.isupper() and len(p) > 1 else p[:1].upper() + p[1:] for p in parts)


def schema_field(f):
    return {"id": f["id"], "name": f["name"], "req": f["req"], "ty": f["ty"], "default": f.get("default")}


def fld(id, name, ty, req="optional", lit=None, default=None, ann=""):
    return {"id": id, "name": name, "ty": ty, "req": req, "lit": lit, "default": default, "ann": ann}


# ---- the semantic Thrift corpus -------------------------------------------------------------------
def thrift_sem():
    docs = []
    # T1/T2: scalars in every requiredness
    d = Doc("scalars")
    for req, nm in [("optional", "SOpt"), ("required", "SReq"), ("default", "SDef")]:
        d.struct(nm, [fld(i + 1, "f_%s" % t, b(t), req) for i, t in enumerate(BASE)])
    ids = [1, 2, 15, 16, 17, 127, 128, 255, 256, 32767]
    kinds = ["i32", "bool", "string", "i64", "bool", "double", "i16", "binary", "i8", "bool"]
    d.struct("SIds", [fld(i, "f%d" % i, b(k)) for i, k in zip(ids, kinds)])
    d.struct("SIdsDesc", [fld(i, "f%d" % i, b(k)) for i, k in reversed(list(zip(ids, kinds)))])
    d.struct("SIdZero", [fld(0, "z", b("i32")), fld(1, "o", b("bool"), "required")])
    d.struct("SEmpty", [])
    docs.append(d)

    # containers depth 2 and 3
    d = Doc("containers")
    d.struct("CList", [fld(i + 1, "l_%s" % t, lst(b(t))) for i, t in enumerate(BASE)])
    hashable = [t for t in BASE]
    d.struct("CSet", [fld(i + 1, "s_%s" % t, st(b(t))) for i, t in enumerate(hashable)])
    d.struct("CMapK", [fld(i + 1, "m_%s" % t, mp(b(t), b("i32"))) for i, t in enumerate(hashable)])
    d.struct("CMapV", [fld(i + 1, "m_%s" % t, mp(b("i32"), b(t))) for i, t in enumerate(BASE)])
    d.struct("CReq", [fld(1, "l", lst(b("i32")), "required"), fld(2, "s", st(b("string")), "required"),
                      fld(3, "m", mp(b("string"), b("bool")), "required")])
    deep = [lst(lst(b("i32"))), lst(st(b("string"))), lst(mp(b("i32"), b("string"))), st(lst(b("i32"))),
            mp(b("string"), lst(b("i32"))), mp(b("i32"), st(b("i32"))), mp(b("i32"), mp(b("string"), b("bool"))),
            mp(lst(b("i32")), b("i32")), lst(lst(b("bool"))), lst(lst(b("double"))), mp(b("double"), lst(b("double"))),
            lst(mp(b("bool"), b("bool")))]
    d.struct("CDeep", [fld(i + 1, "d%d" % (i + 1), t) for i, t in enumerate(deep)])
    docs.append(d)

    # named types in every position
    d = Doc("named")
    d.enum("E1", [("A", 0), ("B", 5), ("C", 127), ("D", 70000)])
    d.struct("Inner", [fld(1, "a", b("i32")), fld(2, "b", b("string"))])
    d.struct("InnerReq", [fld(1, "a", b("i32"), "required"), fld(3, "flag", b("bool"), "required")])
    d.struct("U1", [fld(1, "a", b("i32")), fld(2, "b", b("string")), fld(3, "c", ref("Inner")), fld(4, "d", lst(b("i32"))),
                    fld(5, "e", ref("E1")), fld(6, "f", b("bool")), fld(7, "g", mp(b("i32"), b("string")))], kind="union")
    d.struct("U0", [], kind="union")
    d.struct("U1only", [fld(9, "x", b("double"))], kind="union")
    d.struct("Ex1", [fld(1, "msg", b("string")), fld(2, "code", b("i32"))], kind="exception")
    d.typedef("TdI32", b("i32"))
    d.typedef("TdStr", b("string"))
    d.typedef("TdList", lst(ref("Inner")))
    d.typedef("TdInner", ref("Inner"))
    d.typedef("TdEnum", ref("E1"))
    d.typedef("TdTd", ref("TdI32"))
    d.typedef("TdMap", mp(b("string"), ref("E1")))
    fields = []
    i = 1
    for nm, t in [("e", ref("E1")), ("s", ref("Inner")), ("u", ref("U1")), ("ti", ref("TdI32")), ("tl", ref("TdList")),
                  ("tn", ref("TdInner")), ("te", ref("TdEnum")), ("tt", ref("TdTd")), ("ts", ref("TdStr")), ("tm", ref("TdMap")),
                  ("x", ref("Ex1")), ("sr", ref("InnerReq"))]:
        fields.append(fld(i, "f_%s" % nm, t)); i += 1
        fields.append(fld(i, "l_%s" % nm, lst(t))); i += 1
        fields.append(fld(i, "mv_%s" % nm, mp(b("i32"), t))); i += 1
    for nm, t in [("e", ref("E1")), ("s", ref("Inner")), ("ti", ref("TdI32")), ("te", ref("TdEnum")), ("ts", ref("TdStr"))]:
        fields.append(fld(i, "set_%s" % nm, st(t))); i += 1
        fields.append(fld(i, "mk_%s" % nm, mp(t, b("i32")))); i += 1
    d.struct("SNamed", fields)
    d.struct("SNamedReq", [fld(1, "e", ref("E1"), "required"), fld(2, "s", ref("Inner"), "required"), fld(3, "u", ref("U1"), "required"),
                           fld(4, "t", ref("TdTd"), "required")])
    docs.append(d)

    # recursion
    d = Doc("recursive")
    d.struct("Node", [fld(1, "next", ref("Node")), fld(2, "v", b("i32"))])
    d.struct("RecA", [fld(1, "b", ref("RecB")), fld(2, "n", b("i16"))])
    d.struct("RecB", [fld(1, "a", ref("RecA")), fld(2, "s", b("string"))])
    d.struct("Tree", [fld(1, "kids", lst(ref("Tree"))), fld(2, "tag", b("bool"))])
    d.struct("MapRec", [fld(1, "m", mp(b("string"), ref("MapRec"))), fld(2, "leaf", b("i8"))])
    docs.append(d)

    # defaults (T6)
    d = Doc("defaults")
    d.enum("Color", [("Red", 1), ("Green", 2), ("Blue", 7)])
    d.const("C_STR", b("string"), '"from-const"')
    d.const("C_INT", b("i32"), "42")
    d.typedef("TdI64", b("i64"))
    d.typedef("TdName", b("string"))
    d.typedef("TdColor", ref("Color"))
    d.const("C_INT2", b("i32"), "C_INT")
    d.const("C_DBL", b("double"), "5")
    d.const("C_NEG", b("i64"), "-77")
    # field names in every spelling style: the literal's keys are IDL names, not Rust names
    d.struct("Pt", [fld(1, "xPos", b("i32")), fld(2, "Y", b("i32")), fld(3, "label_text", b("string")), fld(4, "type", b("string")),
                    fld(5, "HTTPCode", b("i16"))])
    cases = [
        ("i8v", b("i8"), "7", vI("I8", 7)), ("i16v", b("i16"), "-300", vI("I16", -300)), ("i32v", b("i32"), "70000", vI("I32", 70000)),
        ("i64v", b("i64"), "5000000000", vI("I64", 5000000000)), ("bt", b("bool"), "true", vBool(True)),
        ("bf", b("bool"), "false", vBool(False)), ("b1", b("bool"), "1", vBool(True)), ("b0", b("bool"), "0", vBool(False)),
        ("dint", b("double"), "3", vDouble(3)), ("ddbl", b("double"), "2.5", vDouble(2.5)), ("dneg", b("double"), "-0.125", vDouble(-0.125)),
        ("s", b("string"), '"hello"', vBin("hello")), ("sempty", b("string"), '""', vBin("")), ("bin", b("binary"), '"raw"', vBin("raw")),
        ("en", ref("Color"), "Color.Green", vI("I32", 2)), ("enum_num", ref("Color"), "7", vI("I32", 7)),
        ("cstr", b("string"), "C_STR", vBin("from-const")), ("cint", b("i32"), "C_INT", vI("I32", 42)),
        ("e2i", b("i32"), "Color.Blue", vI("I32", 7)),
        ("le", lst(b("i32")), "[]", vList("I32", [])), ("l3", lst(b("i32")), "[1, 2, 3]", vList("I32", [vI("I32", 1), vI("I32", 2), vI("I32", 3)])),
        ("ls", lst(b("string")), '["a", "b"]', vList("Bin", [vBin("a"), vBin("b")])),
        ("se", st(b("i32")), "[]", vSet("I32", [])), ("s2", st(b("string")), '["x"]', vSet("Bin", [vBin("x")])),
        ("me", mp(b("string"), b("i32")), "{}", vMap("Bin", "I32", [])), ("m1", mp(b("string"), b("i32")), '{"k": 1}', vMap("Bin", "I32", [(vBin("k"), vI("I32", 1))])),
        ("mlist", mp(b("string"), b("string")), "[]", vMap("Bin", "Bin", [])),
        ("td", ref("TdI64"), "99", vI("I64", 99)), ("tdn", ref("TdName"), '"nm"', vBin("nm")),
        ("pt", ref("Pt"), '{"xPos": 1, "Y": 2, "label_text": "p", "type": "t", "HTTPCode": 404}',
         vStruct([(1, vI("I32", 1)), (2, vI("I32", 2)), (3, vBin("p")), (4, vBin("t")), (5, vI("I16", 404))])),
        ("pt_part", ref("Pt"), '{"Y": 9}', vStruct([(2, vI("I32", 9))])),
        # integers written where a double is expected: exact up to 2^53
        ("dbig", b("double"), "16777217", vDouble(16777217)), ("dnegbig", b("double"), "-123456789", vDouble(-123456789)),
        ("du32", b("double"), "4294967295", vDouble(4294967295)), ("d2p53", b("double"), "9007199254740992", vDouble(9007199254740992)),
        ("dexp", b("double"), "1e10", vDouble(1e10)), ("dnegexp", b("double"), "-1.5e-3", vDouble(-1.5e-3)), ("dbigexp", b("double"), "1.7976931348623157e308", vDouble(1.7976931348623157e308)),
        ("dzero", b("double"), "0", vDouble(0)), ("dfrac", b("double"), "0.1", vDouble(0.1)),
        # extremes of every integer width, negative numbers
        ("i8min", b("i8"), "-128", vI("I8", -128)), ("i8max", b("i8"), "127", vI("I8", 127)),
        ("i16min", b("i16"), "-32768", vI("I16", -32768)), ("i16max", b("i16"), "32767", vI("I16", 32767)),
        ("i32min", b("i32"), "-2147483648", vI("I32", -2147483648)), ("i32max", b("i32"), "2147483647", vI("I32", 2147483647)),
        ("i64min", b("i64"), "-9223372036854775808", vI("I64", -9223372036854775808)), ("i64max", b("i64"), "9223372036854775807", vI("I64", 9223372036854775807)),
        ("ihex", b("i32"), "0x7f", vI("I32", 127)), ("izero", b("i32"), "0", vI("I32", 0)), ("ineg1", b("i64"), "-1", vI("I64", -1)),
        # containers of doubles / nested containers / other key types
        ("ld", lst(b("double")), "[1, 2.5, 16777217]", vList("Double", [vDouble(1), vDouble(2.5), vDouble(16777217)])),
        ("msd", mp(b("string"), b("double")), '{"a": 3}', vMap("Bin", "Double", [(vBin("a"), vDouble(3))])),
        ("mil", mp(b("i32"), lst(b("string"))), '{7: ["x", "y"]}', vMap("I32", "List", [(vI("I32", 7), vList("Bin", [vBin("x"), vBin("y")]))])),
        ("si64", st(b("i64")), "[5000000000]", vSet("I64", [vI("I64", 5000000000)])),
        ("lb", lst(b("bool")), "[true, false]", vList("Bool", [vBool(True), vBool(False)])),
        # constants through other constants, doubles from integer constants, enum through typedef
        ("cchain", b("i32"), "C_INT2", vI("I32", 42)), ("cdbl", b("double"), "C_DBL", vDouble(5)), ("cneg", b("i64"), "C_NEG", vI("I64", -77)),
        ("tden", ref("TdColor"), "Color.Blue", vI("I32", 7)),
        ("ssq", b("string"), "'single'", vBin("single")),
        # doubles in ordered-float positions (set element, map key) with full f64 precision
        ("sdbl", st(b("double")), "[0.5, 3.141592653589793]", vSet("Double", [vDouble(0.5), vDouble(3.141592653589793)])),
        ("mdk", mp(b("double"), b("string")), '{2.718281828459045: "e", 1e300: "big"}', vMap("Double", "Bin", [(vDouble(2.718281828459045), vBin("e")), (vDouble(1e300), vBin("big"))])),
        ("dprec", b("double"), "0.30000000000000004", vDouble(0.30000000000000004)),
        ("ldprec", lst(b("double")), "[1.0000000000000002, 123456789.12345679]", vList("Double", [vDouble(1.0000000000000002), vDouble(123456789.12345679)])),
        # escape sequences in string / binary literals (kept as written by the parser, interpreted by rustc)
        ("sesc_n", b("string"), '"line1\\nline2"', vBin("line1\nline2")), ("sesc_t", b("string"), '"two\\n\\nlines\\n"', vBin("two\n\nlines\n")),
        ("sesc_q", b("string"), '"q\\"uote"', vBin('q"uote')), ("sesc_bs", b("string"), '"back\\\\slash"', vBin("back\\slash")),
        ("sesc_sq", b("string"), "'it\\'s'", vBin("it's")), ("besc", b("binary"), '"a\\nb"', vBin("a\nb")),
        ("lesc", lst(b("string")), '["x\\ny", "p\\\\q"]', vList("Bin", [vBin("x\ny"), vBin("p\\q")])),
        # repeated elements: a list keeps them (and their order), a set does not care
        ("ldup", lst(b("i32")), "[1, 1, 2, 1]", vList("I32", [vI("I32", 1), vI("I32", 1), vI("I32", 2), vI("I32", 1)])),
        ("lsdup", lst(b("string")), '["a", "b", "b", "a"]', vList("Bin", [vBin("a"), vBin("b"), vBin("b"), vBin("a")])),
        ("lbdup", lst(b("bool")), "[true, true, false, true]", vList("Bool", [vBool(True), vBool(True), vBool(False), vBool(True)])),
        ("lddup", lst(b("double")), "[2.5, 2.5]", vList("Double", [vDouble(2.5), vDouble(2.5)])),
        ("mldup", mp(b("string"), lst(b("i32"))), '{"a": [7, 7, 8]}', vMap("Bin", "List", [(vBin("a"), vList("I32", [vI("I32", 7), vI("I32", 7), vI("I32", 8)]))])),
        ("lpt", lst(ref("Pt")), '[{"Y": 1}, {"Y": 1}]', vList("Struct", [vStruct([(2, vI("I32", 1))]), vStruct([(2, vI("I32", 1))])])),
        ("llist", lst(lst(b("i32"))), "[[1, 1], [1, 1], []]", vList("List", [vList("I32", [vI("I32", 1), vI("I32", 1)]), vList("I32", [vI("I32", 1), vI("I32", 1)]), vList("I32", [])])),
    ]
    for req, nm in [("optional", "DOpt"), ("required", "DReq"), ("default", "DDef")]:
        d.struct(nm, [fld(i + 1, n, t, req, lit=lit, default=val) for i, (n, t, lit, val) in enumerate(cases)])
    docs.append(d)

    # annotations
    d = Doc("annotated")
    d.struct("AInner", [fld(1, "v", b("i32"))])
    d.struct("AStr", [fld(1, "fast", b("string"), "required"), fld(2, "std", b("string"), "required", ann='(pilota.rust_type = "string")'),
                      fld(3, "ostd", b("string"), ann='(pilota.rust_type = "string")'),
                      fld(4, "bytes", b("binary"), "required"), fld(5, "vec", b("binary"), "required", ann='(pilota.rust_type = "vec")'),
                      fld(6, "ovec", b("binary"), ann='(pilota.rust_type = "vec")'),
                      fld(7, "lstd", lst(b("string")), ann='(pilota.rust_type = "string")')])
    d.struct("ABtree", [fld(1, "m", mp(b("i32"), lst(ref("AInner"))), "required", ann='(pilota.rust_type = "btree")'),
                        fld(2, "s", st(b("i32")), "required", ann='(pilota.rust_type = "btree")'),
                        fld(3, "om", mp(b("string"), b("i64")), ann='(pilota.rust_type = "btree")'),
                        fld(4, "os", st(b("string")), ann='(pilota.rust_type = "btree")')])
    d.struct("AArc", [fld(1, "id", b("string"), "required"),
                      fld(2, "ll", lst(lst(ref("AInner"))), "required", ann='(pilota.rust_wrapper_arc="true")'),
                      fld(3, "ml", mp(b("i32"), lst(ref("AInner"))), "required", ann='(pilota.rust_wrapper_arc="true")'),
                      fld(4, "one", ref("AInner"), ann='(pilota.rust_wrapper_arc="true")'),
                      fld(5, "s", b("string"), ann='(pilota.rust_type = "string", pilota.rust_wrapper_arc="true")'),
                      fld(6, "v", b("binary"), ann='(pilota.rust_type = "vec", pilota.rust_wrapper_arc="true")')])
    docs.append(d)

    # services
    d = Doc("service")
    d.struct("Req", [fld(1, "key", b("string"), "required"), fld(2, "n", b("i32")), fld(3, "flag", b("bool"))])
    d.struct("Resp", [fld(1, "vals", lst(b("i64"))), fld(2, "ok", b("bool"), "required")])
    d.struct("Ex2", [fld(1, "why", b("string"))], kind="exception")
    d.struct("Ex3", [fld(1, "code", b("i32"), "required")], kind="exception")
    d.struct("Holder", [fld(1, "r", ref("Req")), fld(2, "rs", lst(ref("Req"))), fld(3, "m", mp(b("i32"), ref("Req")))])
    # types that occur only INSIDE container-typed arguments / results (not in pilota's "args" set)
    d.struct("Elem", [fld(1, "k", b("string")), fld(2, "n", b("i32"))])
    d.struct("ElemV", [fld(1, "v", b("i64")), fld(2, "tags", lst(b("string")))])
    d.struct("ElemR", [fld(1, "s", b("string"), "required")])
    d.struct("ElemK", [fld(1, "id", b("i32"), "required")])
    a = lambda i, n, t, req="default": {"id": i, "name": n, "ty": t, "req": req}
    d.service("Svc", [
        {"name": "ping", "args": [], "ret": None},
        {"name": "add", "args": [a(1, "x", b("i32")), a(2, "y", b("i32"))], "ret": b("i32")},
        {"name": "get", "args": [a(1, "req", ref("Req"))], "ret": ref("Resp"), "throws": [a(1, "e", ref("Ex2"))]},
        {"name": "getTwo", "args": [a(1, "key", b("string"), "required"), a(2, "req", ref("Req")), a(3, "flag", b("bool"))], "ret": lst(b("string")),
         "throws": [a(1, "e", ref("Ex2")), a(2, "f", ref("Ex3"))]},
        {"name": "many", "args": [a(1, "xs", lst(b("string"))), a(2, "m", mp(b("i32"), ref("Req")))], "ret": mp(b("string"), b("i32"))},
        {"name": "submit", "args": [a(1, "items", lst(ref("Elem"))), a(2, "m", mp(b("string"), ref("ElemV"))), a(3, "ks", st(ref("ElemK")))], "ret": lst(ref("ElemR"))},
        {"name": "flagIt", "args": [a(1, "on", b("bool"), "required"), a(2, "maybe", b("i64"), "optional"), a(3, "h", ref("Holder"), "optional")], "ret": b("bool")},
    ])
    docs.append(d)
    return docs


def write_corpus(docs, outdir):
    os.makedirs(outdir, exist_ok=True)
    schema = {"docs": []}
    for d in docs:
        p = os.path.join(outdir, d.name + ".thrift")
        txt = d.text()
        if not os.path.exists(p) or open(p).read() != txt:
            open(p, "w").write(txt)
        # arg_ref: the type itself is in pilota's "args" set, or it (transitively) contains one
        byname = {t["name"]: t for t in d.types}

        def reach(t, seen):
            if t["name"] in seen:
                return False
            seen.add(t["name"])
            if t["name"] in d.arg_refs:
                return True
            tys = [f["ty"] for f in t.get("fields", [])] + ([t["ty"]] if t.get("ty") else [])
            for ty in tys:
                for r in refs_in(ty):
                    if r in byname and reach(byname[r], seen):
                        return True
            return False

        for t in d.types:
            t["arg_ref"] = reach(t, set())
        schema["docs"].append({"name": d.name, "file": d.name + ".thrift", "namespace": d.namespace, "types": d.types})
    sp = os.path.join(outdir, "schema.json")
    txt = json.dumps(schema)
    if not os.path.exists(sp) or open(sp).read() != txt:
        open(sp, "w").write(txt)
    return schema


if __name__ == "__main__":
    import sys
    docs = thrift_sem()
    s = write_corpus(docs, sys.argv[1])
    print(sum(len(d["types"]) for d in s["docs"]), "types in", len(s["docs"]), "documents")


# ---- naming-stress / structural corpus for C14 and C17 (no schema needed: only compiled) -------------
RUST_KEYWORDS = ["as", "use", "break", "continue", "crate", "else", "if", "extern", "fn", "for", "impl", "in", "let", "loop",
                 "match", "mod", "move", "mut", "pub", "ref", "return", "Self", "self", "static", "super", "trait", "type",
                 "unsafe", "where", "while", "abstract", "alignof", "become", "box", "do", "final", "macro", "offsetof",
                 "override", "priv", "proc", "pure", "sizeof", "typeof", "unsized", "virtual", "yield", "dyn", "async", "await",
                 "try", "gen"]
STD_NAMES = ["Option", "Vec", "String", "Box", "Result", "Default", "Clone", "Debug", "Ok", "Err", "Some", "None", "Bytes", "Arc",
             "Message", "FastStr", "Hash", "Eq", "Ord", "Iterator", "Send", "Sync", "Copy", "Sized", "Into", "From"]


class RawDoc:
    """A document given as text (one or more files); label names the construct it exercises."""

    def __init__(self, name, files, main=None, label=None, mode="thrift", dedup=None, touch=None, flags=None):
        self.dedup = dedup or []
        self.touch = touch or {}  # {relative file: [item names]} for Builder::touch
        self.flags = flags or []  # extra generator flags this document is always compiled with
        self.name = name
        self.files = files  # {relative path: text}
        self.main = main or list(files.keys())[0]
        self.label = label or name
        self.mode = mode


def chunks(xs, n):
    return [xs[i:i + n] for i in range(0, len(xs), n)]


def thrift_stress():
    docs = []
    kws = RUST_KEYWORDS
    for ci, ch in enumerate(chunks(kws, 9)):
        # keywords as struct names
        body = "\n".join("struct %s {\n    1: i32 a,\n}" % k for k in ch)
        user = "struct UsesThem {\n" + "\n".join("    %d: %s f%d," % (i + 1, k, i) for i, k in enumerate(ch)) + "\n}"
        svc = "service KwSvc%d {\n" % ci + "\n".join("    %s m%d(1: %s arg),\n" % (k, i, k) for i, k in enumerate(ch)) + "}"
        docs.append(RawDoc("kw_struct_%d" % ci, {"kw_struct_%d.thrift" % ci: body + "\n" + user + "\n" + svc + "\n"}, label="keyword-as-struct-name"))
        # keywords as field names / argument names / method names
        body = "struct KwFields {\n" + "\n".join("    %d: optional string %s," % (i + 1, k) for i, k in enumerate(ch)) + "\n}\n"
        body += "struct KwFieldsReq {\n" + "\n".join("    %d: required i64 %s = %d," % (i + 1, k, i) for i, k in enumerate(ch)) + "\n}\n"
        body += "union KwUnion {\n" + "\n".join("    %d: i32 %s," % (i + 1, k) for i, k in enumerate(ch)) + "\n}\n"
        body += "service KwMethods {\n" + "\n".join("    i32 %s(1: i32 %s, 2: KwFields x),\n" % (k, k) for k in ch) + "}\n"
        docs.append(RawDoc("kw_field_%d" % ci, {"kw_field_%d.thrift" % ci: body}, label="keyword-as-field/arg/method-name"))
        # keywords as enum names / variants / typedef / const names
        body = "enum KwVariants {\n" + "\n".join("    %s = %d," % (k, i) for i, k in enumerate(ch)) + "\n}\n"
        body += "\n".join("enum %s {\n    A = 1,\n    %s = 2,\n}" % ("E_" + k, k) for k in ch[:3]) + "\n"
        body += "\n".join("typedef i32 %s" % ("T_" + k) for k in ch) + "\n"
        body += "\n".join("const i32 %s = %d" % (k, i) for i, k in enumerate(ch)) + "\n"
        body += "struct UsesEnum {\n    1: KwVariants v = KwVariants.%s,\n    2: optional %s t,\n}\n" % (ch[0], "T_" + ch[1 % len(ch)])
        body += "service S { UsesEnum get(1: KwVariants v) }\n"
        docs.append(RawDoc("kw_enum_%d" % ci, {"kw_enum_%d.thrift" % ci: body}, label="keyword-as-enum/variant/typedef/const-name"))
    # `Self` / `self` in type-level positions (path keywords cannot be raw identifiers)
    body = ("struct self { 1: optional string v }\nstruct Holder { 1: optional self s, 2: list<self> l }\n"
            "union SelfU { 1: i32 Self, 2: string self_ }\nexception SelfEx { 1: string Self }\n"
            "typedef i32 Self\nstruct UsesSelf { 1: optional Self t, 2: optional SelfU u }\n"
            "enum SelfE { Self = 1, self_v = 2 }\nservice SelfSvc { self get(1: Self a, 2: SelfU u) throws (1: SelfEx e) }\n")
    docs.append(RawDoc("self_names", {"self_names.thrift": body}, label="self-as-type-and-variant-name"))
    for ci, ch in enumerate(chunks(STD_NAMES, 9)):
        body = "\n".join("struct %s {\n    1: optional string v,\n}" % k for k in ch)
        body += "\nstruct UsesStd {\n" + "\n".join("    %d: optional %s f%d,\n    %d: list<%s> l%d," % (2 * i + 1, k, i, 2 * i + 2, k, i) for i, k in enumerate(ch)) + "\n}\n"
        body += "enum StdVariants {\n" + "\n".join("    %s = %d," % (k, i) for i, k in enumerate(ch)) + "\n}\n"
        body += "union StdUnion {\n" + "\n".join("    %d: %s %s," % (i + 1, k, k.lower() + "_v") for i, k in enumerate(ch)) + "\n}\n"
        body += "service StdSvc {\n" + "\n".join("    %s get%d(1: %s a) throws (1: %s e),\n" % (k, i, k, ch[0]) for i, k in enumerate(ch[:4])) + "}\n"
        docs.append(RawDoc("std_names_%d" % ci, {"std_names_%d.thrift" % ci: body}, label="std-prelude-names-as-type/variant-names"))
    # identifiers that collide after case conversion
    body = """struct Collide {
    1: optional i32 fooBar,
    2: optional i32 foo_bar,
    3: optional i32 FooBar,
    4: optional i32 a_b,
    5: optional i32 aB,
    6: optional i32 _x,
    7: optional i32 __y,
    8: optional i32 x_,
    9: optional i32 HTTP_CODE,
    10: optional i32 HTTPCode,
    11: optional i32 a1,
    12: optional i32 a_1,
    13: optional i32 A,
    14: optional i32 a,
}
struct Foo_bar { 1: i32 a }
struct FooBar { 1: i32 a }
struct foo_bar { 1: i32 a }
struct A_B { 1: i32 a }
struct AB { 1: i32 a }
struct _Lead { 1: i32 a }
struct X1 { 1: i32 a }
struct x1 { 1: i32 a }
enum CollideEnum {
    fooBar = 1,
    foo_bar = 2,
    FOO_BAR = 3,
    FooBar = 4,
}
union CollideUnion {
    1: i32 aB,
    2: i32 a_b,
    3: i32 AB,
}
service CollideSvc {
    i32 getUser(1: i32 a),
    i32 get_user(1: i32 a),
    i32 GetUser(1: i32 a),
    Foo_bar a(1: FooBar x, 2: foo_bar y, 3: A_B z, 4: AB w),
}
"""
    docs.append(RawDoc("case_collisions", {"case_collisions.thrift": body}, label="names-colliding-after-case-conversion"))
    # recursion through every construct
    body = """struct SelfRec { 1: optional SelfRec next, 2: required i32 v }
struct ListRec { 1: list<ListRec> kids }
struct SetRecHolder { 1: map<string, SetRecHolder> m, 2: list<map<i32, list<SetRecHolder>>> deep }
struct MutA { 1: optional MutB b }
struct MutB { 1: optional MutC c }
struct MutC { 1: optional MutA a, 2: list<MutB> bs }
union URec { 2: i32 v, 3: list<URec> us, 4: SUnion s, 5: map<string, URec> m }
struct SUnion { 1: optional URec u }
typedef list<TdRec> TdRecList
struct TdRec { 1: optional TdRecList kids, 2: optional TdAlias alias }
typedef TdRec TdAlias
exception ExRec { 1: optional ExRec cause, 2: string msg }
struct ReqRec { 1: required ReqHolder h }
struct ReqHolder { 1: list<ReqRec> rs }
service RecSvc { SelfRec get(1: URec u, 2: TdAlias t) throws (1: ExRec e) }
struct Expr { 1: required Node node, 2: string note }
union Node { 1: i64 lit, 2: Expr neg, 3: list<Expr> call }
struct DefReq { 1: DefU u }
union DefU { 1: DefReq back, 2: i32 stop }
"""
    docs.append(RawDoc("recursion_all", {"recursion_all.thrift": body}, label="recursive-types-through-every-construct"))
    # type cycles whose members reach types without Hash/Eq/Ord (double) or without PartialOrd (map, set)
    # through fields of struct type, in both declaration orders, 2- and 3-cycles, self recursion, and
    # cycle members used where the derives are needed (set element, map key)
    body = """struct PayD { 1: double d }
struct PayM { 1: map<string, i32> m }
struct PayS { 1: set<i32> s }
struct Alpha { 1: optional Beta beta, 2: PayD p }
struct Beta { 1: optional Alpha alpha }
struct Gamma { 1: optional Delta delta }
struct Delta { 1: optional Gamma gamma, 2: PayD p }
struct Tri1 { 1: optional Tri2 n }
struct Tri2 { 1: optional Tri3 n }
struct Tri3 { 1: optional Tri1 n, 2: PayM pm }
struct Sq1 { 1: optional Sq2 n, 2: PayS ps }
struct Sq2 { 1: optional Sq1 n, 2: i32 v }
struct SelfD { 1: optional SelfD next, 2: PayD p }
struct SelfM { 1: optional SelfM next, 2: PayM p }
struct CleanA { 1: optional CleanB b, 2: string s }
struct CleanB { 1: optional CleanA a, 2: i64 v }
struct UsesClean { 1: set<CleanA> as, 2: map<CleanB, i32> bm }
struct Outer { 1: Alpha a, 2: Gamma g, 3: Tri2 t, 4: Sq2 q, 5: list<Beta> bs }
"""
    docs.append(RawDoc("recursion_derive", {"recursion_derive.thrift": body}, label="type-cycles-reaching-non-derivable-types"))
    # every list/set/map nesting of depth 3 over four leaves (hashable where a key or set element)
    fields3 = []
    for leaf in ["i32", "string", "double", "D3Inner"]:
        for inner in ["list<%s>" % leaf, "set<%s>" % leaf, "map<string, %s>" % leaf]:
            if inner.startswith("set") and leaf in ("double", "D3Inner"):
                continue
            for mid in ["list<%s>" % inner, "map<i32, %s>" % inner] + (["set<%s>" % inner] if inner.startswith("list") and leaf in ("i32", "string") else []):
                for outer in ["list<%s>" % mid, "map<string, %s>" % mid]:
                    fields3.append(outer)
    body = "struct D3Inner { 1: optional string v }\n"
    for ci, ch in enumerate(chunks(fields3, 20)):
        body += "struct Deep3_%d {\n" % ci + "\n".join("    %d: optional %s f%d," % (i + 1, t, i) for i, t in enumerate(ch)) + "\n}\n"
    body += "typedef list<list<map<string, i32>>> TdDeep\nstruct UsesTdDeep { 1: optional TdDeep d, 2: list<list<set<i32>>> s }\n"
    docs.append(RawDoc("containers_d3_all", {"containers_d3_all.thrift": body}, label="container-nesting-depth-3-all"))
    body = """union UDirect { 1: UDirect u, 2: i32 v }
struct HoldsU { 1: optional UDirect u }
service UDirectSvc { HoldsU get(1: UDirect u) }
"""
    docs.append(RawDoc("recursion_union_direct", {"recursion_union_direct.thrift": body}, label="union-variant-of-its-own-type"))
    body = """union UA { 1: UB b, 2: i32 v }
union UB { 1: UA a, 2: string s }
service UMutSvc { UA get(1: UB u) }
"""
    docs.append(RawDoc("recursion_union_mutual", {"recursion_union_mutual.thrift": body}, label="mutually-recursive-unions"))
    # constants of every kind
    body = """enum Color { Red = 1, Green = 2 }
struct Pt { 1: i32 x, 2: optional string name, 3: list<i32> xs }
const i8 C_I8 = -8
const i16 C_I16 = 300
const i32 C_I32 = 0x7fffffff
const i64 C_I64 = -9223372036854775807
const double C_D1 = 1.5
const double C_D2 = 3
const double C_D3 = -2e-3
const bool C_B1 = true
const bool C_B2 = 0
const string C_S = "str"
const binary C_BIN = "bin"
const Color C_E = Color.Green
const Color C_E2 = 1
const list<i32> C_L = [1, 2, 3]
const list<string> C_LS = ["a", "b"]
const set<string> C_SET = ["x", "y"]
const map<string, i32> C_M = {"a": 1, "b": 2}
const map<i32, list<string>> C_ML = {1: ["x"], 2: []}
const map<Color, string> C_ME = {Color.Red: "r", Color.Green: "g"}
const map<string, map<string, i32>> C_MM = {"o": {"i": 1}}
const Pt C_PT = {"x": 1, "name": "n", "xs": [1, 2]}
const list<Pt> C_PTS = [{"x": 1}, {"x": 2, "name": "b"}]
const string C_REF = C_S
const i32 C_REF2 = C_I32
struct UsesConsts {
    1: i32 a = C_I32,
    2: string s = C_S,
    3: Color c = C_E,
    4: list<i32> l = [1, 2],
    5: map<string, i32> m = {"k": 1},
    6: optional Pt p = {"x": 1},
    7: double d = C_D2,
}
service ConstSvc { UsesConsts get() }
"""
    docs.append(RawDoc("consts_all", {"consts_all.thrift": body}, label="constants-of-every-kind"))
    body = """const list<list<i32>> C_LL = [[1], [], [2, 3]]
const list<list<string>> C_LL2 = [["a"], ["b"]]
service NestedConstSvc { void f() }
"""
    docs.append(RawDoc("const_nested_list", {"const_nested_list.thrift": body}, label="constant-list-of-lists"))
    # multi-file: includes, namespaces, same names in two files, sibling namespaces, service extends across files
    files = {
        "multi_main.thrift": """include "multi_a.thrift"
include "sub/multi_b.thrift"
include "multi_v1.thrift"
include "multi_v2.thrift"
namespace rs app.main

struct Item { 1: i32 id, 2: optional multi_a.Item a_item, 3: optional multi_b.Item b_item }
struct Uses {
    1: multi_a.Shared s,
    2: list<multi_b.Item> items,
    3: map<string, multi_a.Kind> kinds,
    4: optional multi_a.Alias alias,
    5: multi_v2.Model m2,
    6: optional multi_v1.Model m1,
    7: multi_a.Kind k = multi_a.Kind.B,
    8: i32 c = multi_a.A_CONST,
}
service MainSvc extends multi_a.BaseSvc {
    Uses run(1: multi_a.Shared s, 2: multi_b.Item i) throws (1: multi_a.Oops e),
}
""",
        "multi_a.thrift": """include "sub/multi_b.thrift"
namespace rs app.a.b

enum Kind { A = 1, B = 2 }
const i32 A_CONST = 5
typedef list<Shared> Alias
struct Item { 1: string name }
struct Shared { 1: optional multi_b.Item inner, 2: Kind kind, 3: optional Item own }
exception Oops { 1: string why }
service BaseSvc { Shared base(1: Item i) }
""",
        "sub/multi_b.thrift": """namespace rs app.a.c

struct Item { 1: i64 v, 2: optional Item again }
""",
        "multi_v1.thrift": """namespace rs api.v1.model

struct Model { 1: i32 a }
struct Only1 { 1: Model m }
""",
        "multi_v2.thrift": """include "multi_v1.thrift"
namespace rs api.v2.model

struct Model { 1: string b, 2: optional multi_v1.Model old, 3: list<multi_v1.Only1> olds }
""",
    }
    docs.append(RawDoc("multi_file", files, main="multi_main.thrift", label="includes-namespaces-cross-file-references"))
    # several files that generate into ONE Rust module (same rs namespace): legal, pilota only warns
    shared = {"shared_main.thrift": "".join('include "shared_p%d.thrift"\n' % i for i in range(1, 6)) +
              "namespace rs shared.model\n\nstruct MainRec { " + " ".join("%d: optional shared_p%d.Part%dKey k%d," % (i, i, i, i) for i in range(1, 6)) + " }\n"
              "service SharedSvc { MainRec get(1: shared_p1.Part1Key k) }\n"}
    for i in range(1, 6):
        shared["shared_p%d.thrift" % i] = ("namespace rs shared.model\n\nstruct Part%dKey { 1: i32 id, 2: string name }\n"
                                           "struct Part%dValue { 1: optional Part%dKey key, 2: list<i64> xs }\nenum Part%dKind { A = 0, B = 1 }\n" % (i, i, i, i))
    docs.append(RawDoc("shared_ns", shared, main="shared_main.thrift", label="several-files-one-rust-module"))
    # Builder::dedup: a structurally identical item declared in many modules (each module keeps its
    # own copy), and declared twice within one module by two files (kept once)
    dd = {"dd_main.thrift": "".join('include "dd_m%02d.thrift"\n' % i for i in range(1, 13)) + "namespace rs dd.top\n\nstruct Top { " +
          " ".join("%d: optional dd_m%02d.Common c%d," % (i, i, i) for i in range(1, 13)) + " }\n"}
    for i in range(1, 13):
        dd["dd_m%02d.thrift" % i] = ("namespace rs dd.m%02d\n\nstruct Common { 1: i32 a, 2: string b }\nstruct Use%02d { 1: optional Common c, 2: i64 n }\n"
                                      "enum Kind { A = 0, B = 1 }\n" % (i, i))
    docs.append(RawDoc("dedup_modules", dd, main="dd_main.thrift", label="dedup-same-item-in-many-modules", dedup=["Common", "Kind"]))
    ds = {"ds_main.thrift": 'include "ds_a.thrift"\ninclude "ds_b.thrift"\nnamespace rs ds.model\n\nstruct Holder { 1: optional ds_a.Common a, 2: optional ds_b.Common b, 3: optional ds_a.OnlyA oa }\n',
          "ds_a.thrift": "namespace rs ds.model\n\nstruct Common { 1: i32 a, 2: string b }\nstruct OnlyA { 1: Common c }\n",
          "ds_b.thrift": "namespace rs ds.model\n\nstruct Common { 1: i32 a, 2: string b }\nstruct OnlyB { 1: Common c }\n"}
    docs.append(RawDoc("dedup_shared", ds, main="ds_main.thrift", label="dedup-same-item-twice-in-one-module", dedup=["Common"]))
    # ignore_unused + Builder::touch naming items of several files; many items (and enum variants)
    # in between so that item ids are spread widely
    tm = {"tm_main.thrift": 'include "tm_a.thrift"\ninclude "tm_b.thrift"\ninclude "tm_c.thrift"\nnamespace rs tm.main\n\n'
          "struct Root { 1: optional tm_a.A1 a, 2: optional tm_b.B1 b }\nservice TmSvc { Root get(1: Root r) }\n"}
    for fn_, pre in (("tm_a", "A"), ("tm_b", "B"), ("tm_c", "C")):
        body = "namespace rs tm.%s\n\n" % pre.lower()
        for i in range(1, 9):
            body += "enum %sE%d {\n%s\n}\n" % (pre, i, "\n".join("    V%d = %d," % (j, j) for j in range(40)))
            body += "struct %s%d { 1: optional i32 x, 2: optional %sE%d e, 3: optional string s }\n" % (pre, i, pre, i)
        tm[fn_ + ".thrift"] = body
    docs.append(RawDoc("touch_multi", tm, main="tm_main.thrift", label="ignore-unused-with-touched-items-of-several-files",
                       touch={"tm_a.thrift": ["A3", "A7", "AE5"], "tm_b.thrift": ["B2", "B8"], "tm_c.thrift": ["C1", "C4", "C6", "CE2"]},
                       flags=["--ignore-unused"]))
    # services: oneway, void, extends within the file, many args, no-arg, annotations on methods
    body = """struct R { 1: i32 a }
exception E1 { 1: string m }
exception E2 { 1: i32 c }
service Base { void ping(), oneway void fire(1: R r), }
service Mid extends Base { i32 one(1: i32 a), }
service Top extends Mid {
    R many(1: i32 a, 2: string b, 3: list<R> c, 4: map<string, R> d, 5: optional bool e, 6: required double f),
    void thrower() throws (1: E1 a, 2: E2 b),
    list<map<string, list<R>>> nested(1: set<i32> s),
    binary raw(1: binary b, 2: uuid u),
}
"""
    docs.append(RawDoc("services_all", {"services_all.thrift": body}, label="services-oneway-void-extends-throws"))
    # all container nestings to depth 3 over the leaf set (compile only)
    leaves = ["i32", "string", "bool", "double", "Inner3", "E3"]
    outer = []
    for o in ["list", "set", "map"]:
        for i in ["list", "set", "map"]:
            for l in leaves:
                inner = {"list": "list<%s>" % l, "set": "set<%s>" % l, "map": "map<string, %s>" % l}[i]
                if i == "set" and l in ("Inner3",):
                    pass
                if o == "list":
                    outer.append("list<%s>" % inner)
                elif o == "set":
                    if i == "list":
                        outer.append("set<%s>" % inner)  # Vec is hashable; sets/maps are not
                else:
                    outer.append("map<i32, %s>" % inner)
                    if i == "list":
                        outer.append("map<%s, i32>" % inner)
    body = "enum E3 { A = 1 }\nstruct Inner3 { 1: i32 a }\nstruct Deep3 {\n" + "\n".join("    %d: optional %s f%d," % (i + 1, t_, i) for i, t_ in enumerate(outer)) + "\n}\nservice D3 { Deep3 get(1: Deep3 d) }\n"
    docs.append(RawDoc("containers_depth3", {"containers_depth3.thrift": body}, label="container-nesting-depth-3"))
    return docs


def sem_as_raw():
    """the semantic corpus as raw documents (for C14/C17)"""
    out = []
    for d in thrift_sem():
        out.append(RawDoc("sem_" + d.name, {d.name + ".thrift": d.text()}, label="semantic:" + d.name))
    return out


def write_raw(docs, outdir):
    for d in docs:
        for rel, txt in d.files.items():
            p = os.path.join(outdir, d.name, rel)
            os.makedirs(os.path.dirname(p), exist_ok=True)
            if not os.path.exists(p) or open(p).read() != txt:
                open(p, "w").write(txt)


# ---- protobuf corpus (G_proto) -------------------------------------------------------------------
PB_SCALARS = ["double", "float", "int32", "int64", "uint32", "uint64", "sint32", "sint64", "fixed32", "fixed64", "sfixed32",
              "sfixed64", "bool", "string", "bytes"]
PB_KEYS = ["int32", "int64", "uint32", "uint64", "sint32", "sint64", "fixed32", "fixed64", "sfixed32", "sfixed64", "bool", "string"]


class PDocB:
    def __init__(self, name, package, syntax="proto3", imports=()):
        self.name, self.package, self.syntax, self.imports = name, package, syntax, list(imports)
        self.top = []  # text blocks
        self.messages = []  # schema
        self.enums = {}

    def enum(self, name, values, parent=None):
        fq = ".".join(x for x in [self.package, parent, name] if x)
        self.enums[fq] = [v for _, v in values]
        return "enum %s { %s }" % (name, " ".join("%s = %d;" % (n, v) for n, v in values)), fq

    def fq(self, name, parent=None):
        return ".".join(x for x in [self.package, parent, name] if x)

    def text(self):
        head = 'syntax = "%s";\n' % self.syntax
        if self.package:
            head += "package %s;\n" % self.package
        for i in self.imports:
            head += 'import "%s.proto";\n' % i
        return head + "\n" + "\n\n".join(self.top) + "\n"


def pf(num, name, label, ty, tyname=None, key=None, oneof=None):
    return {"num": num, "name": name, "label": label, "ty": ty, "tyname": tyname, "key": key, "oneof": oneof}


def pb_field_text(f, syntax):
    ty = f["ty"] if f["ty"] not in ("message", "enum") else "." + f["tyname"]
    if f["label"] == "map":
        return "  map<%s, %s> %s = %d;" % (f["key"], ty, f["name"], f["num"])
    lab = {"singular": "" if syntax == "proto3" else "optional ", "optional": "optional ", "required": "required ", "repeated": "repeated ", "oneof": ""}[f["label"]]
    return "  %s%s %s = %d;" % (lab, ty, f["name"], f["num"])


def pb_message_text(name, fields, syntax, nested=()):
    lines = ["message %s {" % name]
    for n in nested:
        lines += ["  " + l for l in n.splitlines()]
    groups = {}
    for f in fields:
        if f["label"] == "oneof":
            groups.setdefault(f["oneof"], []).append(f)
    done = set()
    for f in fields:
        if f["label"] == "oneof":
            if f["oneof"] in done:
                continue
            done.add(f["oneof"])
            lines.append("  oneof %s {" % f["oneof"])
            for g in groups[f["oneof"]]:
                lines.append("  " + pb_field_text(g, syntax))
            lines.append("  }")
        else:
            lines.append(pb_field_text(f, syntax))
    lines.append("}")
    return "\n".join(lines)


def proto_sem():
    docs = []
    d = PDocB("pscalars", "psc")

    def add(name, fields, nested=(), parent=None):
        d.top.append(pb_message_text(name, fields, d.syntax, nested)) if parent is None else None
        d.messages.append({"name": name, "fq": d.fq(name, parent), "fields": fields, "enums": []})

    add("ScalarsSingular", [pf(i + 1, "f_%s" % t, "singular", t) for i, t in enumerate(PB_SCALARS)])
    add("ScalarsOptional", [pf(i + 1, "o_%s" % t, "optional", t) for i, t in enumerate(PB_SCALARS)])
    add("ScalarsRepeated", [pf(i + 1, "r_%s" % t, "repeated", t) for i, t in enumerate(PB_SCALARS)])
    add("ScalarsMapVal", [pf(i + 1, "mv_%s" % t, "map", t, key="string") for i, t in enumerate(PB_SCALARS)])
    add("ScalarsMapKey", [pf(i + 1, "mk_%s" % t, "map", "int32", key=t) for i, t in enumerate(PB_KEYS)])
    add("ScalarsOneof", [pf(i + 1, "x_%s" % t, "oneof", t, oneof="pick") for i, t in enumerate(PB_SCALARS)] + [pf(100, "after", "singular", "int32")])
    nums = [1, 15, 16, 2047, 2048, 536870911]
    add("Nums", [pf(n, "n%d" % n, "singular", t) for n, t in zip(nums, ["int32", "string", "sint64", "bool", "fixed32", "bytes"])])
    add("NumsRep", [pf(n, "n%d" % n, "repeated", t) for n, t in zip(nums, ["int32", "string", "sint64", "bool", "fixed32", "double"])])
    docs.append(d)

    d = PDocB("pnamed", "pnm")

    def add2(name, fields, nested=(), parent=None, text=True):
        if text and parent is None:
            d.top.append(pb_message_text(name, fields, d.syntax, nested))
        d.messages.append({"name": name, "fq": d.fq(name, parent), "fields": fields, "enums": []})

    et, efq = d.enum("Kind", [("K0", 0), ("K1", 1), ("K5", 5), ("KNEG", -1)])
    d.top.append(et)
    inner = [pf(1, "a", "singular", "int32"), pf(2, "b", "singular", "string")]
    add2("Inner", inner)
    ifq = d.fq("Inner")
    named = [
        pf(1, "e", "singular", "enum", efq), pf(2, "oe", "optional", "enum", efq), pf(3, "re", "repeated", "enum", efq),
        pf(4, "me", "map", "enum", efq, key="string"),
        pf(5, "m", "singular", "message", ifq), pf(6, "om", "optional", "message", ifq), pf(7, "rm", "repeated", "message", ifq),
        pf(8, "mm", "map", "message", ifq, key="int32"),
        pf(9, "pe", "oneof", "enum", efq, oneof="pick"), pf(10, "pm", "oneof", "message", ifq, oneof="pick"), pf(11, "ps", "oneof", "string", oneof="pick"),
        pf(12, "tail", "singular", "sint32"),
    ]
    add2("Named", named)
    # nesting: two levels, several nested messages and a nested enum
    leaf = [pf(1, "v", "singular", "int64")]
    mid_fields = [pf(1, "leaf", "singular", "message", d.fq("Leaf", "Outer.Mid")), pf(2, "n", "repeated", "uint32")]
    side_fields = [pf(1, "s", "singular", "string")]
    outer_fields = [pf(1, "mid", "singular", "message", d.fq("Mid", "Outer")), pf(2, "side", "repeated", "message", d.fq("Side", "Outer")),
                    pf(3, "third", "optional", "message", d.fq("Third", "Outer")), pf(4, "fourth", "map", "message", d.fq("Fourth", "Outer"), key="string"),
                    pf(5, "id", "singular", "int32")]
    mid_txt = pb_message_text("Mid", mid_fields, d.syntax, [pb_message_text("Leaf", leaf, d.syntax)])
    outer_txt = pb_message_text("Outer", outer_fields, d.syntax, [mid_txt, pb_message_text("Side", side_fields, d.syntax),
                                                                 pb_message_text("Third", [pf(1, "t", "singular", "bool")], d.syntax),
                                                                 pb_message_text("Fourth", [pf(1, "f", "singular", "double")], d.syntax)])
    d.top.append(outer_txt)
    add2("Outer", outer_fields, text=False)
    add2("Mid", mid_fields, parent="Outer", text=False)
    add2("Leaf", leaf, parent="Outer.Mid", text=False)
    add2("Side", side_fields, parent="Outer", text=False)
    add2("Third", [pf(1, "t", "singular", "bool")], parent="Outer", text=False)
    add2("Fourth", [pf(1, "f", "singular", "double")], parent="Outer", text=False)
    rfq = d.fq("Rec")
    add2("Rec", [pf(1, "next", "singular", "message", rfq), pf(2, "kids", "repeated", "message", rfq), pf(3, "v", "singular", "int32"),
                 pf(4, "m", "map", "message", rfq, key="string"), pf(5, "alt", "oneof", "message", rfq, oneof="o"), pf(6, "txt", "oneof", "string", oneof="o")])
    docs.append(d)

    d = PDocB("ptwo", "p2x", syntax="proto2")

    def add3(name, fields):
        d.top.append(pb_message_text(name, fields, d.syntax))
        d.messages.append({"name": name, "fq": d.fq(name), "fields": fields, "enums": []})

    et, efq = d.enum("E2", [("Z", 0), ("ONE", 1), ("BIG", 100000)])
    d.top.append(et)
    add3("In2", [pf(1, "q", "required", "int32"), pf(2, "w", "optional", "string")])
    add3("P2", [pf(1, "r", "required", "int32"), pf(2, "o", "optional", "string"), pf(3, "rep", "repeated", "sint64"), pf(4, "rm", "required", "message", d.fq("In2")),
                pf(5, "e", "optional", "enum", efq), pf(6, "re", "required", "enum", efq), pf(7, "rb", "required", "bytes"), pf(8, "rd", "required", "double"),
                pf(9, "om", "optional", "message", d.fq("In2")), pf(10, "ob", "optional", "bool"), pf(11, "rs", "required", "sfixed32")])
    docs.append(d)

    dep = PDocB("pimp_dep", "imp.dep")
    dep.top.append(pb_message_text("Dep", [pf(1, "v", "singular", "int32"), pf(2, "s", "repeated", "string")], dep.syntax))
    dep.messages.append({"name": "Dep", "fq": dep.fq("Dep"), "fields": [pf(1, "v", "singular", "int32"), pf(2, "s", "repeated", "string")], "enums": []})
    main = PDocB("pimp_main", "imp.main", imports=["pimp_dep"])
    mf = [pf(1, "d", "singular", "message", dep.fq("Dep")), pf(2, "ds", "repeated", "message", dep.fq("Dep")), pf(3, "dm", "map", "message", dep.fq("Dep"), key="uint64"), pf(4, "x", "singular", "fixed64")]
    main.top.append(pb_message_text("UsesDep", mf, main.syntax))
    main.messages.append({"name": "UsesDep", "fq": main.fq("UsesDep"), "fields": mf, "enums": []})
    # the importing document's schema must know the imported message too
    main.messages.append(dict(dep.messages[0], imported=True))
    main.extra_files = {"pimp_dep.proto": dep.text()}
    docs.append(main)
    return docs


def write_proto_corpus(docs, outdir):
    os.makedirs(outdir, exist_ok=True)
    schema = {"docs": []}
    for d in docs:
        files = {d.name + ".proto": d.text()}
        files.update(getattr(d, "extra_files", {}))
        for rel, txt in files.items():
            p = os.path.join(outdir, d.name, rel)
            os.makedirs(os.path.dirname(p), exist_ok=True)
            if not os.path.exists(p) or open(p).read() != txt:
                open(p, "w").write(txt)
        schema["docs"].append({"name": d.name, "syntax": d.syntax, "messages": d.messages, "enums": d.enums})
    sp = os.path.join(outdir, "schema.json")
    txt = json.dumps(schema)
    if not os.path.exists(sp) or open(sp).read() != txt:
        open(sp, "w").write(txt)
    return schema


def proto_docs_raw():
    out = []
    for d in proto_sem():
        files = {d.name + ".proto": d.text()}
        files.update(getattr(d, "extra_files", {}))
        out.append(RawDoc("pb_" + d.name, files, main=d.name + ".proto", label="protobuf:" + d.name, mode="proto"))
    # naming stress for protobuf (P6)
    kws = RUST_KEYWORDS[:18]
    body = 'syntax = "proto3";\npackage kwp;\n' + "\n".join("message %s { int32 %s = 1; }" % (k.capitalize() + "Msg", k) for k in kws if k not in ("Self", "self"))
    body += "\nmessage KwFields {\n" + "\n".join("  string %s = %d;" % (k, i + 1) for i, k in enumerate(kws) if k not in ("Self",)) + "\n}\n"
    body += "enum KwEnum { KW_ZERO = 0; " + " ".join("%s = %d;" % (k.upper() + "_V", i + 1) for i, k in enumerate(kws)) + " }\n"
    body += "message Option { int32 a = 1; }\nmessage Vec { Option o = 1; }\nmessage Box { Vec v = 1; oneof type { string s = 2; int32 i = 3; } }\n"
    body += "service KwSvc { rpc Get(Option) returns (Vec); rpc Stream(stream Box) returns (stream Vec); }\n"
    out.append(RawDoc("pb_naming", {"pb_naming.proto": body}, label="protobuf:naming-stress", mode="proto"))
    req = ('syntax = "proto2";\npackage rqo;\nmessage PExpr { required PNode node = 1; }\n'
           'message PNode { oneof k { int64 lit = 1; PExpr neg = 2; } repeated PExpr call = 3; }\n')
    out.append(RawDoc("pb_required_recursion", {"pb_required_recursion.proto": req}, label="protobuf:required-recursion-through-oneof", mode="proto"))
    rec = 'syntax = "proto3";\npackage rco;\nmessage Node { int32 v = 1; oneof next { Node child = 2; string leaf = 3; } }\n'
    out.append(RawDoc("pb_rec_oneof", {"pb_rec_oneof.proto": rec}, label="protobuf:recursive-oneof", mode="proto"))
    return out

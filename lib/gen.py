"""Generated-code pipeline: corpus -> pilota-build (child process per document x configuration)
-> scan for generated types -> emit harness crate -> cargo build (self-healing)."""
import json, os, re, subprocess, sys, time, shutil, hashlib
from concurrent.futures import ThreadPoolExecutor
import vlib, corpus
from vlib import ROOT, WORK, die

GEN_TARGET = os.path.join(ROOT, "target", "gen")

CFG_FLAGS = {
    "k0": [],
    "k1": ["--keep"],
    "s0": ["--split"],
    "s1": ["--split", "--keep"],
}


def write_if_changed(path, data, binary=False):
    mode = "rb" if binary else "r"
    if os.path.exists(path):
        try:
            if open(path, mode).read() == data:
                return False
        except Exception:
            pass
    os.makedirs(os.path.dirname(path), exist_ok=True)
    open(path, "wb" if binary else "w").write(data)
    return True


def run_builder(vgen, mode, idl_paths, out_path, flags, include_dirs=(), timeout=120):
    """Runs the generator in a child process; returns (rc, log). The output is first written to a
    scratch location and only moved over the previous output when it differs (keeps mtimes, so
    cargo does not rebuild the harness for nothing)."""
    tmp = out_path + ".new"
    tmpdir = os.path.dirname(tmp)
    os.makedirs(tmpdir, exist_ok=True)
    for p in [tmp]:
        if os.path.exists(p):
            os.remove(p)
    cmd = [vgen, mode, "--out", tmp] + list(flags)
    for d in include_dirs:
        cmd += ["--include", d]
    cmd += list(idl_paths)
    try:
        p = subprocess.run(cmd, cwd=tmpdir, env=vlib.ENV, stdout=subprocess.PIPE, stderr=subprocess.STDOUT, timeout=timeout)
        rc, log = p.returncode, p.stdout.decode("utf8", "replace")
    except subprocess.TimeoutExpired as e:
        rc, log = -999, "TIMEOUT after %ds" % timeout
    if rc == 0 and os.path.exists(tmp):
        data = open(tmp, "rb").read()
        # split mode: the generator writes a sibling directory named after the file stem
        stem_new = tmp[:-3] if tmp.endswith(".rs") else tmp
        stem_out = out_path[:-3] if out_path.endswith(".rs") else out_path
        if os.path.isdir(stem_new):
            # rewrite include paths in the main file (they name the scratch stem)
            data = data.replace(os.path.basename(stem_new).encode() + b"/", os.path.basename(stem_out).encode() + b"/")
            sync_dir(stem_new, stem_out)
            shutil.rmtree(stem_new)
        write_if_changed(out_path, data, binary=True)
        os.remove(tmp)
    return rc, log


def sync_dir(src, dst):
    os.makedirs(dst, exist_ok=True)
    seen = set()
    for root, dirs, files in os.walk(src):
        rel = os.path.relpath(root, src)
        for f in files:
            s = os.path.join(root, f)
            d = os.path.join(dst, rel, f)
            seen.add(os.path.normpath(d))
            write_if_changed(d, open(s, "rb").read(), binary=True)
    for root, dirs, files in os.walk(dst):
        for f in files:
            p = os.path.normpath(os.path.join(root, f))
            if p not in seen:
                os.remove(p)


MOD_RE = re.compile(r"^\s*pub mod ([\w#]+) \{")
MSG_RE = re.compile(r"^\s*impl ::pilota::thrift::Message for ([\w#]+)\b")
PB_RE = re.compile(r"^\s*impl ::pilota::prost::Message for ([\w#]+)\b")
DEF_RE = re.compile(r"^\s*impl ::std::default::Default for ([\w#]+)\b")
STRUCT_RE = re.compile(r"^\s*pub struct ([\w#]+)\b")
INC_RE = re.compile(r'^\s*include!\("([^"]+)"\);')


def scan_rs(path, stack=None, found=None, defaults=None, pb=None):
    """Finds every generated Message impl with its module path (brace counting)."""
    found = [] if found is None else found
    defaults = set() if defaults is None else defaults
    pb = [] if pb is None else pb
    stack = [] if stack is None else stack
    depth0 = stack[-1][1] + 1 if stack else 0
    depth = depth0
    local = []
    last_derive = ""
    try:
        lines = open(path, errors="replace").read().splitlines()
    except FileNotFoundError:
        return found, defaults, pb
    for line in lines:
        m = MOD_RE.match(line)
        if m:
            local.append((m.group(1), depth))
        cur = "::".join([x[0] for x in stack] + [x[0] for x in local])
        m = MSG_RE.match(line)
        if m:
            found.append((cur, m.group(1)))
        m = PB_RE.match(line)
        if m:
            pb.append((cur, m.group(1)))
        m = DEF_RE.match(line)
        if m:
            defaults.add((cur, m.group(1)))
        if "#[derive(" in line:
            last_derive = line
        m = STRUCT_RE.match(line)
        if m:
            if "Default" in last_derive:
                defaults.add((cur, m.group(1)))
            last_derive = ""
        m = INC_RE.match(line)
        if m:
            inc = os.path.join(os.path.dirname(path), m.group(1))
            scan_rs(inc, stack + local, found, defaults, pb)
        depth += line.count("{") - line.count("}")
        while local and depth <= local[-1][1]:
            local.pop()
    return found, defaults, pb


CARGO_TOML = """[package]
name = "genharness_%(name)s"
version = "0.1.0"
edition = "2021"

[workspace]

[dependencies]
vcore = { path = "/verif/engines/vcore" }
vdrive = { path = "/verif/engines/vdrive" }
pilota = { path = "/repo/pilota"%(features)s }
bytes = "1"
serde = { version = "1", features = ["derive"] }
serde_json = "1"
tokio = { version = "1", features = ["io-util"] }
libc = "0.2"

[profile.dev]
opt-level = 0
debug = 0
debug-assertions = true
overflow-checks = true
incremental = true
codegen-units = 64

[profile.dev.package."*"]
opt-level = 2
"""


def emit_crate(name, crate_dir, modules, entries_src, harness_file, schema_path, features=""):
    os.makedirs(os.path.join(crate_dir, "src"), exist_ok=True)
    os.makedirs(os.path.join(crate_dir, ".cargo"), exist_ok=True)
    write_if_changed(os.path.join(crate_dir, "Cargo.toml"), CARGO_TOML % {"name": name, "features": features})
    write_if_changed(os.path.join(crate_dir, ".cargo", "config.toml"),
                     "[net]\noffline = true\n[build]\ntarget-dir = \"%s\"\n" % GEN_TARGET)
    lock = os.path.join(crate_dir, "Cargo.lock")
    if not os.path.exists(lock):
        shutil.copy("/repo/Cargo.lock", lock)
    mods = "\n".join('    pub mod %s { include!("%s"); }' % (m, p) for m, p in modules)
    main = """#![allow(warnings)]
#[global_allocator]
static ALLOC: vcore::alloc::Counting = vcore::alloc::Counting;

#[path = "%s"]
mod harness;

pub mod gen {
%s
}

fn main() {
    let mut entries = Vec::new();
%s
    harness::main(harness::Harness { entries, schema_path: "%s" });
}
""" % (harness_file, mods, entries_src, schema_path)
    write_if_changed(os.path.join(crate_dir, "src", "main.rs"), main)


def cargo_build(crate_dir, name):
    t0 = time.time()
    p = subprocess.run(["cargo", "build", "--offline", "--message-format=short"], cwd=crate_dir, env=vlib.ENV,
                       stdout=subprocess.PIPE, stderr=subprocess.STDOUT, text=True)
    return p.returncode, p.stdout, time.time() - t0


def ensure_vgen():
    binpath, _ = vlib.build("vgen")
    return binpath


def build_thrift_sem(tier="quick", cfgs=("k0", "k1")):
    """Builds the semantic Thrift corpus harness. Returns dict(bin, info)."""
    vgen = ensure_vgen()
    base = os.path.join(WORK, "gen", "tsem")
    idl_dir, out_dir, crate_dir = [os.path.join(base, x) for x in ("idl", "out", "crate")]
    docs = corpus.thrift_sem()
    schema = corpus.write_corpus(docs, idl_dir)
    jobs = [(d.name, c) for d in docs for c in cfgs]
    info = {"builder_failures": [], "dropped_modules": [], "documents": len(docs), "configs": list(cfgs)}

    def one(job):
        dn, c = job
        out = os.path.join(out_dir, "%s__%s.rs" % (dn, c))
        rc, log = run_builder(vgen, "thrift", [os.path.join(idl_dir, dn + ".thrift")], out, CFG_FLAGS[c])
        return job, rc, log

    t0 = time.time()
    with ThreadPoolExecutor(max_workers=vlib.NCPU) as ex:
        results = list(ex.map(one, jobs))
    info["builder_s"] = round(time.time() - t0, 2)
    modules = []
    for (dn, c), rc, log in results:
        if rc != 0:
            msg = [l for l in log.splitlines() if "panicked" in l or "rror" in l][:3]
            info["builder_failures"].append({"doc": dn, "cfg": c, "rc": rc, "msg": " | ".join(msg)[:300]})
        else:
            modules.append(("%s__%s" % (dn, c), os.path.join(out_dir, "%s__%s.rs" % (dn, c))))
    dropped = set()
    for attempt in range(6):
        live = [(m, p) for m, p in modules if m not in dropped]
        lines = []
        for m, p in live:
            dn, c = m.rsplit("__", 1)
            found, defaults, _ = scan_rs(p)
            for modpath, ty in found:
                full = "gen::%s::%s::%s" % (m, modpath, ty) if modpath else "gen::%s::%s" % (m, ty)
                fn = "entry_default" if (modpath, ty) in defaults else "entry"
                lines.append('    entries.push(harness::%s::<%s>("%s", "%s", "%s", "%s"));' % (fn, full, dn, c, ty.replace("r#", ""), full))
        emit_crate("tsem", crate_dir, live, "\n".join(lines), "/verif/engines/vgenrun/src/harness.rs",
                   os.path.join(idl_dir, "schema.json"))
        rc, out, secs = cargo_build(crate_dir, "tsem")
        info["cargo_s"] = round(secs, 2)
        if rc == 0:
            break
        bad = set(re.findall(r"/out/(\w+?__\w+?)(?:\.rs|/)", out))
        bad = {b for b in bad if any(b == m for m, _ in live)}
        if not bad:
            print(out[-5000:])
            die("harness crate does not build and no generated module is to blame")
        errs = [l for l in out.splitlines() if l.startswith("/verif/work") or "error" in l][:6]
        for b_ in sorted(bad):
            info["dropped_modules"].append({"module": b_, "errors": [e[:240] for e in errs if b_ in e][:3]})
        dropped |= bad
    else:
        die("harness crate still failing after dropping modules")
    info["modules"] = len(modules) - len(dropped)
    return {"bin": os.path.join(GEN_TARGET, "debug", "genharness_tsem"), "info": info}



def snake(name):
    out = []
    for i, c in enumerate(name):
        if c.isupper() and i > 0 and (name[i - 1].islower() or name[i - 1].isdigit() or (i + 1 < len(name) and name[i + 1].islower() and name[i - 1].isupper())):
            out.append("_")
        out.append(c.lower())
    return "".join(out)


def upper_camel(name):
    return "".join(p[:1].upper() + p[1:] for p in name.split("_") if p)


def pb_rust_path(module, package, fq):
    """crate path of the generated type of proto name `fq` (package-qualified)"""
    rest = fq[len(package) + 1:] if package and fq.startswith(package + ".") else fq
    parts = rest.split(".")
    mods = package.split(".") if package else []
    mods += [snake(x) for x in parts[:-1]]
    return "crate::gen::%s::r#gen::%s" % (module, "::".join(mods + [parts[-1]]))


def pb_access_src(module, d, packages):
    """field read-out impls for every message / enum / oneof of document `d` (schema dict)"""
    out = []

    def pkg_of(fq):
        best = ""
        for p in packages:
            if fq.startswith(p + ".") and len(p) > len(best):
                best = p
        return best

    def path(fq):
        return pb_rust_path(module, pkg_of(fq), fq)

    for efq in d["enums"]:
        out.append("impl harness::Scalar for %s { fn ps(&self) -> PS { PS::I(i32::from(self.clone()) as i64) } }" % path(efq))
    for m in d["messages"]:
        mp = path(m["fq"])
        body = []
        groups = {}
        for f in m["fields"]:
            n, name, lab = f["num"], f["name"], f["label"]
            if lab == "oneof":
                groups.setdefault(f["oneof"], []).append(f)
            elif (lab == "singular" and f["ty"] != "message") or lab == "required":
                body.append("ops::one(&mut m, %d, &self.%s);" % (n, name))
            elif lab in ("singular", "optional"):
                body.append("ops::opt(&mut m, %d, &self.%s);" % (n, name))
            elif lab == "repeated":
                body.append("ops::rep(&mut m, %d, &self.%s);" % (n, name))
            elif lab == "map":
                body.append("ops::map(&mut m, %d, self.%s.iter());" % (n, name))
        for g, members in groups.items():
            body.append("if let Some(x) = &self.%s { harness::OneofPut::put(x, &mut m); }" % g)
            parts = m["fq"].rsplit(".", 1)
            ep = path(m["fq"]).rsplit("::", 1)[0] + "::" + snake(m["name"]) + "::" + upper_camel(g)
            arms = "\n".join("            %s::%s(x) => m.0.push((%d, PF::One(x.ps())))," % (ep, upper_camel(f["name"]), f["num"]) for f in members)
            out.append("impl harness::OneofPut for %s {\n    fn put(&self, m: &mut PMsg) {\n        match self {\n%s\n        }\n    }\n}" % (ep, arms))
        out.append("impl harness::ToPMsg for %s {\n    fn to_pmsg(&self) -> PMsg {\n        let mut m = PMsg::default();\n        %s\n        m\n    }\n}" % (mp, "\n        ".join(body)))
        out.append("impl harness::Scalar for %s { fn ps(&self) -> PS { PS::M(harness::ToPMsg::to_pmsg(self)) } }" % mp)
    return "\n".join(out)


PB_MAIN = """#![allow(warnings)]
#[global_allocator]
static ALLOC: vcore::alloc::Counting = vcore::alloc::Counting;

#[path = "/verif/engines/vpbrun/src/harness.rs"]
mod harness;

pub mod gen {
%(mods)s
}

mod access {
    use super::harness::{self, ops, Scalar};
    use vcore::pbref::{PMsg, PS, PF};
%(access)s
}

fn main() {
    let mut entries = Vec::new();
%(entries)s
    harness::main(harness::Harness { entries, schema_path: "%(schema)s", cfg: "%(cfg)s" });
}
"""


def build_proto_sem(cfg="d0"):
    """Builds the protobuf semantic corpus harness; cfg d0/d1 = feature pb-encode-default-value off/on."""
    vgen = ensure_vgen()
    base = os.path.join(WORK, "gen", "psem")
    idl_dir, out_dir = os.path.join(base, "idl"), os.path.join(base, "out")
    crate_dir = os.path.join(base, "crate_" + cfg)
    docs = corpus.proto_sem()
    schema = corpus.write_proto_corpus(docs, idl_dir)
    info = {"builder_failures": [], "documents": len(docs), "cfg": cfg}

    def one(d):
        out = os.path.join(out_dir, d.name, "gen.rs")
        rc, log = run_builder(vgen, "proto", [os.path.join(idl_dir, d.name, d.name + ".proto")], out, [], include_dirs=[os.path.join(idl_dir, d.name)])
        return d, rc, log, out

    with ThreadPoolExecutor(max_workers=vlib.NCPU) as ex:
        results = list(ex.map(one, docs))
    modules, access, entries = [], [], []
    packages = sorted({d.package for d in docs} | {"imp.dep"})
    for (d, rc, log, out), sd in zip(results, schema["docs"]):
        if rc != 0:
            msg = [l for l in log.splitlines() if "panicked" in l or "rror" in l][:3]
            info["builder_failures"].append({"doc": d.name, "rc": rc, "msg": " | ".join(msg)[:300]})
            continue
        modules.append((d.name, out))
        access.append(pb_access_src(d.name, sd, packages))
        for m in sd["messages"]:
            pk = max([p for p in packages if m["fq"].startswith(p + ".")], key=len)
            entries.append('    entries.push(harness::entry::<%s>("%s", "%s", "%s", "%s"));' % (pb_rust_path(d.name, pk, m["fq"]), d.name, cfg, m["name"], m["fq"]))
    if info["builder_failures"]:
        print(json.dumps(info["builder_failures"], indent=1))
        die("the generator fails on the protobuf semantic corpus (C14 reports generator failures; this harness needs every document)")
    os.makedirs(os.path.join(crate_dir, "src"), exist_ok=True)
    os.makedirs(os.path.join(crate_dir, ".cargo"), exist_ok=True)
    feats = ', features = ["pb-encode-default-value"]' if cfg == "d1" else ""
    write_if_changed(os.path.join(crate_dir, "Cargo.toml"), CARGO_TOML % {"name": "psem_" + cfg, "features": feats})
    write_if_changed(os.path.join(crate_dir, ".cargo", "config.toml"), "[net]\noffline = true\n[build]\ntarget-dir = \"%s\"\n" % GEN_TARGET)
    lock = os.path.join(crate_dir, "Cargo.lock")
    if not os.path.exists(lock):
        shutil.copy("/repo/Cargo.lock", lock)
    mods = "\n".join('    pub mod %s { include!("%s"); }' % (m, p) for m, p in modules)
    main = PB_MAIN % {"mods": mods, "access": "\n".join(access), "entries": "\n".join(entries), "schema": os.path.join(idl_dir, "schema.json"), "cfg": cfg}
    write_if_changed(os.path.join(crate_dir, "src", "main.rs"), main)
    rc, out, secs = cargo_build(crate_dir, "psem_" + cfg)
    info["cargo_s"] = round(secs, 2)
    if rc != 0:
        print(out[-6000:])
        die("protobuf harness crate does not build")
    info["modules"] = len(modules)
    info["types"] = len(entries)
    return {"bin": os.path.join(GEN_TARGET, "debug", "genharness_psem_" + cfg), "info": info}


if __name__ == "__main__":
    r = build_proto_sem(sys.argv[2]) if len(sys.argv) > 2 and sys.argv[1] == "pb" else build_thrift_sem()
    print(json.dumps(r["info"], indent=1))

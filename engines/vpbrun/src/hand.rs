//! Hand-written messages over the runtime field codecs that generated code does not reach:
//! `string` (String), `bytes` over Vec<u8>, `sint32`/`sint64`, packed encoders, `group`,
//! `btree_map`, and the well-known wrapper impls of `types.rs`. Their schema is described to the
//! reference codec here (document "hand").

use super::ops::{entry, one, opt, rep, Scalar, ToPMsg};
use super::Harness;
use bytes::{Buf, BufMut};
use pilota::prost::encoding::{self, skip_field, DecodeContext, WireType};
use pilota::prost::{DecodeError, Message};
use std::collections::{BTreeMap, HashMap};
use vcore::pbref::{PDoc, PField, PMessage, PMsg, PF, PS};

thread_local! { static TAG: std::cell::Cell<u32> = std::cell::Cell::new(0); }

macro_rules! hand_len {
    (sing, $n:expr, $x:expr, $m:ident) => { encoding::$m::encoded_len($n, $x) };
    (rep, $n:expr, $x:expr, $m:ident) => { encoding::$m::encoded_len_repeated($n, $x) };
    (packed, $n:expr, $x:expr, $m:ident) => { encoding::$m::encoded_len_packed($n, $x) };
    (optmsg, $n:expr, $x:expr, $m:ident) => { $x.as_ref().map_or(0, |v| encoding::$m::encoded_len($n, v)) };
    (repmsg, $n:expr, $x:expr, $m:ident) => { encoding::$m::encoded_len_repeated($n, $x) };
    (btree, $n:expr, $x:expr, $k:ident, $v:ident) => { encoding::btree_map::encoded_len(encoding::$k::encoded_len, encoding::$v::encoded_len, $n, $x) };
}
macro_rules! hand_enc {
    (sing, $n:expr, $x:expr, $b:expr, $m:ident) => { encoding::$m::encode($n, $x, $b) };
    (rep, $n:expr, $x:expr, $b:expr, $m:ident) => { encoding::$m::encode_repeated($n, $x, $b) };
    (packed, $n:expr, $x:expr, $b:expr, $m:ident) => { encoding::$m::encode_packed($n, $x, $b) };
    (optmsg, $n:expr, $x:expr, $b:expr, $m:ident) => { if let Some(v) = $x.as_ref() { encoding::$m::encode($n, v, $b) } };
    (repmsg, $n:expr, $x:expr, $b:expr, $m:ident) => { encoding::$m::encode_repeated($n, $x, $b) };
    (btree, $n:expr, $x:expr, $b:expr, $k:ident, $v:ident) => {
        encoding::btree_map::encode(encoding::$k::encode, encoding::$k::encoded_len, encoding::$v::encode, encoding::$v::encoded_len, $n, $x, $b)
    };
}
macro_rules! hand_merge {
    (sing, $w:expr, $x:expr, $b:expr, $c:expr, $m:ident) => { encoding::$m::merge($w, $x, $b, $c) };
    (rep, $w:expr, $x:expr, $b:expr, $c:expr, $m:ident) => { encoding::$m::merge_repeated($w, $x, $b, $c) };
    (packed, $w:expr, $x:expr, $b:expr, $c:expr, $m:ident) => { encoding::$m::merge_repeated($w, $x, $b, $c) };
    (optmsg, $w:expr, $x:expr, $b:expr, $c:expr, message) => { encoding::message::merge($w, $x.get_or_insert_with(Default::default), $b, $c) };
    (optmsg, $w:expr, $x:expr, $b:expr, $c:expr, group) => { encoding::group::merge(TAG.with(|t| t.get()), $w, $x.get_or_insert_with(Default::default), $b, $c) };
    (repmsg, $w:expr, $x:expr, $b:expr, $c:expr, message) => { encoding::message::merge_repeated($w, $x, $b, $c) };
    (repmsg, $w:expr, $x:expr, $b:expr, $c:expr, group) => { encoding::group::merge_repeated(TAG.with(|t| t.get()), $w, $x, $b, $c) };
    (btree, $w:expr, $x:expr, $b:expr, $c:expr, $k:ident, $v:ident) => { encoding::btree_map::merge(encoding::$k::merge, encoding::$v::merge, $x, $b, $c) };
}
macro_rules! hand_put {
    (sing, $m:expr, $n:expr, $x:expr) => { one(&mut $m, $n, $x) };
    (rep, $m:expr, $n:expr, $x:expr) => { rep(&mut $m, $n, $x) };
    (packed, $m:expr, $n:expr, $x:expr) => { rep(&mut $m, $n, $x) };
    (optmsg, $m:expr, $n:expr, $x:expr) => { opt(&mut $m, $n, $x) };
    (repmsg, $m:expr, $n:expr, $x:expr) => { rep(&mut $m, $n, $x) };
    (btree, $m:expr, $n:expr, $x:expr) => { super::ops::map(&mut $m, $n, $x.iter()) };
}

macro_rules! hand_msg {
    ($name:ident { $( $num:literal $f:ident : $t:ty = $kind:ident ( $($arg:ident),* ) ),* $(,)? }) => {
        #[derive(Default, Debug, PartialEq, Clone)]
        pub struct $name { $(pub $f: $t),* }
        impl Message for $name {
            fn encoded_len(&self) -> usize { 0 $( + hand_len!($kind, $num, &self.$f, $($arg),*) )* }
            #[allow(unused_variables)]
            fn encode_raw<B>(&self, buf: &mut B) where B: BufMut { $( hand_enc!($kind, $num, &self.$f, buf, $($arg),*); )* }
            #[allow(unused_variables)]
            fn merge_field<B>(&mut self, tag: u32, wt: WireType, buf: &mut B, ctx: DecodeContext) -> Result<(), DecodeError> where B: Buf {
                TAG.with(|t| t.set(tag));
                match tag {
                    $( $num => hand_merge!($kind, wt, &mut self.$f, buf, ctx, $($arg),*), )*
                    _ => skip_field(wt, tag, buf, ctx),
                }
            }
        }
        impl ToPMsg for $name {
            fn to_pmsg(&self) -> PMsg { let mut m = PMsg::default(); $( hand_put!($kind, m, $num, &self.$f); )* m }
        }
        impl Scalar for $name { fn ps(&self) -> PS { PS::M(self.to_pmsg()) } }
    };
}

hand_msg!(HandScalars {
    1 a_string: String = sing(string),
    2 a_bytes: Vec<u8> = sing(bytes),
    3 a_sint32: i32 = sing(sint32),
    4 a_sint64: i64 = sing(sint64),
    5 r_string: Vec<String> = rep(string),
    6 r_bytes: Vec<Vec<u8>> = rep(bytes),
    7 r_sint32: Vec<i32> = rep(sint32),
    8 r_sint64: Vec<i64> = rep(sint64),
    9 a_int32: i32 = sing(int32),
    10 a_uint32: u32 = sing(uint32),
});

hand_msg!(HandPacked {
    1 p_int32: Vec<i32> = packed(int32),
    2 p_int64: Vec<i64> = packed(int64),
    3 p_uint32: Vec<u32> = packed(uint32),
    4 p_uint64: Vec<u64> = packed(uint64),
    5 p_sint32: Vec<i32> = packed(sint32),
    6 p_sint64: Vec<i64> = packed(sint64),
    7 p_bool: Vec<bool> = packed(bool),
    8 p_fixed32: Vec<u32> = packed(fixed32),
    9 p_fixed64: Vec<u64> = packed(fixed64),
    10 p_sfixed32: Vec<i32> = packed(sfixed32),
    11 p_sfixed64: Vec<i64> = packed(sfixed64),
    12 p_float: Vec<f32> = packed(float),
    13 p_double: Vec<f64> = packed(double),
});

hand_msg!(HandGroup {
    1 g: Option<Box<HandGroup>> = optmsg(group),
    2 gs: Vec<HandGroup> = repmsg(group),
    3 v: i32 = sing(int32),
    4 s: String = sing(string),
    5 inner: Option<HandLeaf> = optmsg(group),
    6 m: Option<Box<HandGroup>> = optmsg(message),
});

hand_msg!(HandLeaf {
    1 x: u64 = sing(fixed64),
    2 names: Vec<String> = rep(string),
});

hand_msg!(HandBTree {
    1 by_str: BTreeMap<String, i32> = btree(string, int32),
    2 by_int: BTreeMap<i64, String> = btree(int64, string),
    3 by_sint: BTreeMap<i32, i64> = btree(sint32, sint64),
    4 by_bool: BTreeMap<bool, Vec<u8>> = btree(bool, bytes),
    5 by_fixed: BTreeMap<u32, f64> = btree(fixed32, double),
    6 to_msg: BTreeMap<u64, HandLeaf> = btree(uint64, message),
});

// the well-known wrapper impls of types.rs: `message W { T value = 1; }`
macro_rules! wrapper {
    ($t:ty) => {
        impl ToPMsg for $t {
            fn to_pmsg(&self) -> PMsg {
                PMsg(vec![(1, PF::One(self.ps()))])
            }
        }
    };
}
wrapper!(bool);
wrapper!(u32);
wrapper!(u64);
wrapper!(i32);
wrapper!(i64);
wrapper!(f32);
wrapper!(f64);
wrapper!(String);
wrapper!(Vec<u8>);
wrapper!(bytes::Bytes);
impl ToPMsg for () {
    fn to_pmsg(&self) -> PMsg {
        PMsg::default()
    }
}

fn f(num: u32, name: &str, label: &str, ty: &str, tyname: Option<&str>, key: Option<&str>) -> PField {
    PField { num, name: name.into(), label: label.into(), ty: ty.into(), tyname: tyname.map(|x| x.into()), key: key.map(|x| x.into()), oneof: None }
}

fn msg(name: &str, fields: Vec<PField>) -> PMessage {
    PMessage { name: name.into(), fq: format!("hand.{}", name), fields, enums: vec![] }
}

pub fn register(h: &mut Harness, docs: &mut HashMap<String, PDoc>) {
    let scal = ["string", "bytes", "sint32", "sint64"];
    let mut hs = vec![];
    for (i, t) in scal.iter().enumerate() {
        hs.push(f(i as u32 + 1, &format!("a_{}", t), "singular", t, None, None));
    }
    for (i, t) in scal.iter().enumerate() {
        hs.push(f(i as u32 + 5, &format!("r_{}", t), "repeated", t, None, None));
    }
    hs.push(f(9, "a_int32", "singular", "int32", None, None));
    hs.push(f(10, "a_uint32", "singular", "uint32", None, None));
    let packed = ["int32", "int64", "uint32", "uint64", "sint32", "sint64", "bool", "fixed32", "fixed64", "sfixed32", "sfixed64", "float", "double"];
    let hp = packed.iter().enumerate().map(|(i, t)| f(i as u32 + 1, &format!("p_{}", t), "repeated", t, None, None)).collect();
    let hg = vec![
        f(1, "g", "optional", "group", Some("hand.HandGroup"), None),
        f(2, "gs", "repeated", "group", Some("hand.HandGroup"), None),
        f(3, "v", "singular", "int32", None, None),
        f(4, "s", "singular", "string", None, None),
        f(5, "inner", "optional", "group", Some("hand.HandLeaf"), None),
        f(6, "m", "optional", "message", Some("hand.HandGroup"), None),
    ];
    let hl = vec![f(1, "x", "singular", "fixed64", None, None), f(2, "names", "repeated", "string", None, None)];
    let hb = vec![
        f(1, "by_str", "map", "int32", None, Some("string")),
        f(2, "by_int", "map", "string", None, Some("int64")),
        f(3, "by_sint", "map", "sint64", None, Some("sint32")),
        f(4, "by_bool", "map", "bytes", None, Some("bool")),
        f(5, "by_fixed", "map", "double", None, Some("fixed32")),
        f(6, "to_msg", "map", "message", Some("hand.HandLeaf"), Some("uint64")),
    ];
    let mut messages = vec![msg("HandScalars", hs), msg("HandPacked", hp), msg("HandGroup", hg), msg("HandLeaf", hl), msg("HandBTree", hb)];
    let cfg = h.cfg;
    h.entries.push(entry::<HandScalars>("hand", cfg, "HandScalars", "hand.HandScalars"));
    h.entries.push(entry::<HandPacked>("hand", cfg, "HandPacked", "hand.HandPacked"));
    h.entries.push(entry::<HandGroup>("hand", cfg, "HandGroup", "hand.HandGroup"));
    h.entries.push(entry::<HandLeaf>("hand", cfg, "HandLeaf", "hand.HandLeaf"));
    h.entries.push(entry::<HandBTree>("hand", cfg, "HandBTree", "hand.HandBTree"));
    macro_rules! wrap {
        ($t:ty, $name:expr, $pty:expr) => {
            messages.push(msg($name, vec![f(1, "value", "singular", $pty, None, None)]));
            h.entries.push(entry::<$t>("hand", cfg, $name, &format!("hand.{}", $name)));
        };
    }
    wrap!(bool, "BoolValue", "bool");
    wrap!(u32, "UInt32Value", "uint32");
    wrap!(u64, "UInt64Value", "uint64");
    wrap!(i32, "Int32Value", "int32");
    wrap!(i64, "Int64Value", "int64");
    wrap!(f32, "FloatValue", "float");
    wrap!(f64, "DoubleValue", "double");
    wrap!(String, "StringValue", "string");
    wrap!(Vec<u8>, "BytesValue", "bytes");
    wrap!(bytes::Bytes, "BytesValueShared", "bytes");
    messages.push(msg("Empty", vec![]));
    h.entries.push(entry::<()>("hand", cfg, "Empty", "hand.Empty"));
    docs.insert("hand".into(), PDoc { name: "hand".into(), syntax: "proto2".into(), messages, enums: HashMap::new() });
}

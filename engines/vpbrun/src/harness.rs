//! Harness over generated protobuf types: the emitted crate `include!`s the generated files,
//! an emitted `access.rs` reads the fields of every generated type into the reference value
//! model, and a registry of monomorphic op tables is handed to `main`.

#[path = "ops.rs"]
pub mod ops;
#[path = "space.rs"]
pub mod space;
#[path = "pchecks.rs"]
pub mod pchecks;
#[path = "hand.rs"]
pub mod hand;

pub use ops::{entry, Entry, OneofPut, Scalar, ToPMsg};
use vcore::report::{install_silent_panic_hook, Args};

pub struct Harness {
    pub entries: Vec<Entry>,
    pub schema_path: &'static str,
    /// "d0" (feature pb-encode-default-value off) or "d1" (on)
    pub cfg: &'static str,
}

pub fn main(mut h: Harness) {
    let a = Args::parse();
    install_silent_panic_hook();
    if let Err(e) = vcore::pbref::self_check() {
        eprintln!("MACHINERY: {}", e);
        std::process::exit(2);
    }
    let mut docs = pchecks::load_schema(h.schema_path);
    hand::register(&mut h, &mut docs);
    if let Some(path) = &a.replay {
        let txt = std::fs::read_to_string(path).expect("read replay file");
        let v: serde_json::Value = serde_json::from_str(&txt).expect("parse replay file");
        let r1 = pchecks::replay(&h, &docs, &a, &v);
        let r2 = pchecks::replay(&h, &docs, &a, &v);
        let s1: Vec<&String> = r1.iter().map(|x| &x.0).collect();
        let s2: Vec<&String> = r2.iter().map(|x| &x.0).collect();
        if s1 != s2 {
            eprintln!("MACHINERY: nondeterministic replay: {:?} vs {:?}", s1, s2);
            std::process::exit(2);
        }
        let want = v["sig"].as_str().unwrap_or("");
        for (s, d) in &r1 {
            println!("OBSERVED {} :: {}", s, d);
        }
        if r1.iter().any(|x| x.0 == want) {
            println!("REPRODUCED {}", want);
            std::process::exit(1);
        }
        println!("NOT-REPRODUCED {}", want);
        std::process::exit(0);
    }
    pchecks::run(&h, &docs, &a);
}

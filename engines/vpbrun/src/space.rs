//! Bounded value spaces for protobuf messages: boundary alphabets per scalar type, crossed with
//! every field position (singular, optional, repeated, map key, map value, oneof member,
//! embedded message, group) of the message under test.

use vcore::pbref::{PDoc, PField, PMessage, PMsg, PF, PS};

pub fn alphabet(doc: &PDoc, ty: &str, tyname: Option<&str>, thorough: bool) -> Vec<PS> {
    let i = |v: &[i64]| v.iter().map(|x| PS::I(*x)).collect::<Vec<_>>();
    let u = |v: &[u64]| v.iter().map(|x| PS::U(*x)).collect::<Vec<_>>();
    let mut out = match ty {
        "int32" | "sint32" | "sfixed32" => i(&[0, 1, -1, 63, 64, -64, -65, 127, 128, 16383, 16384, i32::MAX as i64, i32::MIN as i64]),
        "int64" | "sint64" | "sfixed64" => i(&[0, 1, -1, 63, 64, -64, -65, 128, 1 << 31, -(1 << 31) - 1, (1 << 35) - 1, 1 << 56, i64::MAX, i64::MIN]),
        "uint32" | "fixed32" => u(&[0, 1, 127, 128, 16383, 16384, 0x0102_0304, u32::MAX as u64]),
        "uint64" | "fixed64" => u(&[0, 1, 127, 128, 1 << 32, 0x0102_0304_0506_0708, (1 << 63) - 1, 1 << 63, u64::MAX]),
        "bool" => vec![PS::B(false), PS::B(true)],
        "float" => [0f32, -0.0, 1.5, -2.25, f32::MAX, f32::MIN_POSITIVE, f32::INFINITY, f32::NEG_INFINITY].iter().map(|x| PS::F32(x.to_bits())).chain([PS::F32(0x7fc0_0001), PS::F32(1)]).collect(),
        "double" => [0f64, -0.0, 1.5, -2.25, f64::MAX, f64::MIN_POSITIVE, f64::INFINITY, f64::NEG_INFINITY].iter().map(|x| PS::F64(x.to_bits())).chain([PS::F64(0x7ff8_0000_0000_0001), PS::F64(1)]).collect(),
        "string" => vec![PS::S(vec![]), PS::S(b"a".to_vec()), PS::S("h\u{e9}llo \u{1f600}".as_bytes().to_vec()), PS::S(vec![b'x'; 127]), PS::S(vec![b'y'; 128]), PS::S(b"\0".to_vec())],
        "bytes" => vec![PS::S(vec![]), PS::S(vec![0]), PS::S(vec![0xff, 0x00, 0x80, 0xfe]), PS::S(vec![0x80; 127]), PS::S((0..=255u8).collect()), PS::S(vec![7; 300])],
        "enum" => {
            let mut v: Vec<i64> = doc.enums.get(tyname.unwrap_or("")).map(|x| x.iter().map(|n| *n as i64).collect()).unwrap_or_else(|| vec![0, 1]);
            // numbers the schema does not declare (open enums keep them)
            v.extend([7, -2, i32::MAX as i64, i32::MIN as i64]);
            v.dedup();
            i(&v)
        }
        x => panic!("MACHINERY: alphabet for {}", x),
    };
    if thorough {
        match ty {
            "string" => {
                out.push(PS::S(vec![b'z'; 16384]));
                out.push(PS::S("\u{7ff}\u{800}\u{ffff}\u{10000}".as_bytes().to_vec()));
            }
            "bytes" => out.push(PS::S(vec![1; 16384])),
            "int32" | "sint32" | "int64" | "sint64" => {
                for k in [7u32, 14, 21, 28] {
                    out.push(PS::I((1i64 << k) - 1));
                    out.push(PS::I(1i64 << k));
                    out.push(PS::I(-(1i64 << k)));
                    out.push(PS::I(-(1i64 << k) - 1));
                }
            }
            "uint32" | "uint64" => {
                for k in [7u32, 14, 21, 28] {
                    out.push(PS::U((1u64 << k) - 1));
                    out.push(PS::U(1u64 << k));
                }
            }
            _ => {}
        }
        if matches!(ty, "int64" | "sint64") {
            for k in [35u32, 42, 49, 56, 62] {
                out.push(PS::I((1i64 << k) - 1));
                out.push(PS::I(1i64 << k));
                out.push(PS::I(-(1i64 << k)));
                out.push(PS::I(-(1i64 << k) - 1));
            }
        }
        if ty == "uint64" {
            for k in [35u32, 42, 49, 56, 63] {
                out.push(PS::U((1u64 << k) - 1));
                out.push(PS::U(1u64 << k));
            }
        }
    }
    out
}

pub struct Space<'a> {
    pub doc: &'a PDoc,
    pub thorough: bool,
    /// also all pairs of fields over the first values of their alphabets (C05/C06 thorough)
    pub pairs: bool,
    /// also a packed body of >= 16384 bytes (three-byte length prefix) per repeated numeric field
    /// (C05 only: the other checks enumerate per byte or per element of the encoding; C06 with it took 190 s)
    pub huge: bool,
}

impl<'a> Space<'a> {
    /// values a field of this type can take; message-typed positions take the (shallower)
    /// values of the embedded message
    fn scalars(&self, f: &PField, depth: usize) -> Vec<PS> {
        match f.ty.as_str() {
            "message" | "group" => {
                if depth == 0 {
                    return vec![PS::M(PMsg::default())];
                }
                let m = self.doc.msg(f.tyname.as_deref().unwrap());
                let mut v: Vec<PS> = self.values(m, depth - 1).into_iter().map(PS::M).collect();
                let cap = if self.thorough { 24 } else { 8 };
                if v.len() > cap {
                    // keep an evenly spread selection (deterministic)
                    let step = v.len() as f64 / cap as f64;
                    v = (0..cap).map(|i| v[(i as f64 * step) as usize].clone()).collect();
                }
                v
            }
            t => alphabet(self.doc, t, f.tyname.as_deref(), self.thorough),
        }
    }

    fn key_alphabet(&self, kt: &str) -> Vec<PS> {
        alphabet(self.doc, kt, None, self.thorough)
    }

    /// field values for one field: the list of PF the field is exercised with
    fn field_values(&self, f: &PField, depth: usize) -> Vec<PF> {
        let sc = self.scalars(f, depth);
        match f.label.as_str() {
            "repeated" => {
                let mut v = vec![];
                for s in &sc {
                    v.push(PF::Rep(vec![s.clone()]));
                }
                v.push(PF::Rep(sc.clone()));
                if sc.len() >= 2 {
                    v.push(PF::Rep(vec![sc[1].clone(), sc[0].clone(), sc[1].clone()]));
                }
                if !matches!(f.ty.as_str(), "message" | "group") {
                    // a packed body longer than 127 bytes (two-byte length prefix)
                    let big = &sc[sc.len() - 1];
                    v.push(PF::Rep(vec![big.clone(); 140]));
                    if self.huge && !matches!(f.ty.as_str(), "string" | "bytes") {
                        v.push(PF::Rep(vec![big.clone(); 16400]));
                    }
                }
                v
            }
            "map" => {
                let ks = self.key_alphabet(f.key.as_deref().unwrap());
                let mut v = vec![];
                for k in &ks {
                    v.push(PF::Map(vec![(k.clone(), sc[sc.len().min(2) - 1].clone())]));
                }
                for s in &sc {
                    v.push(PF::Map(vec![(ks[ks.len().min(2) - 1].clone(), s.clone())]));
                }
                // default key with default value, and a few entries at once
                v.push(PF::Map(vec![(ks[0].clone(), sc[0].clone())]));
                let n = ks.len().min(4);
                v.push(PF::Map((0..n).map(|i| (ks[i].clone(), sc[i % sc.len()].clone())).collect()));
                v
            }
            _ => sc.into_iter().map(PF::One).collect(),
        }
    }

    /// the values of message `m`: the empty message, every field alone with every one of its
    /// values, and "all fields set" rows
    pub fn values(&self, m: &PMessage, depth: usize) -> Vec<PMsg> {
        let mut out = vec![PMsg::default()];
        let per_field: Vec<Vec<PF>> = m.fields.iter().map(|f| self.field_values(f, depth)).collect();
        for (f, vals) in m.fields.iter().zip(&per_field) {
            for v in vals {
                out.push(PMsg(vec![(f.num, v.clone())]));
            }
        }
        if self.pairs && depth > 0 {
            for i in 0..m.fields.len() {
                for j in i + 1..m.fields.len() {
                    let (fi, fj) = (&m.fields[i], &m.fields[j]);
                    if fi.label == "oneof" && fj.label == "oneof" && fi.oneof == fj.oneof {
                        continue;
                    }
                    for a in per_field[i].iter().take(4) {
                        for b in per_field[j].iter().take(4) {
                            out.push(PMsg(vec![(fi.num, a.clone()), (fj.num, b.clone())]));
                        }
                    }
                }
            }
        }
        // rows: field i takes its value number (row + i) mod len; one member per oneof group
        let rows = per_field.iter().map(|v| v.len()).max().unwrap_or(0).min(if self.thorough { 40 } else { 6 });
        for row in 0..rows {
            let mut pm = PMsg::default();
            let mut groups: Vec<(&str, usize)> = vec![];
            for (i, (f, vals)) in m.fields.iter().zip(&per_field).enumerate() {
                if vals.is_empty() {
                    continue;
                }
                if f.label == "oneof" {
                    let g = f.oneof.as_deref().unwrap_or("");
                    let members: Vec<usize> = m.fields.iter().enumerate().filter(|(_, x)| x.oneof.as_deref() == Some(g)).map(|(j, _)| j).collect();
                    let pick = members[row % members.len()];
                    if pick != i || groups.iter().any(|x| x.0 == g) {
                        continue;
                    }
                    groups.push((g, i));
                }
                pm.0.push((f.num, vals[(row + i) % vals.len()].clone()));
            }
            out.push(pm);
        }
        out
    }
}

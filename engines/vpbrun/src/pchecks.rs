//! Protobuf checks over generated (and hand-written) message types: C05 round trip and
//! encoded_len, C06 wire-format interop against the reference codec, C18 merge semantics and
//! unknown fields, C10 totality/boundedness on faulted input, C19 (protobuf half) no leak on
//! failed decodes.

use super::ops::{BufKind, DecRes, Entry, Mode, Req, Resp};
use super::space::Space;
use super::Harness;
use serde_json::{json, Value};
use std::collections::hash_map::DefaultHasher;
use std::collections::HashMap;
use std::hash::{Hash, Hasher};
use vcore::explore;
use vcore::pbref::{self as pb, Node, PChoice, PDoc, PMessage, PMsg, PF, PS};
use vcore::report::{Args, Collector};

pub fn load_schema(path: &str) -> HashMap<String, PDoc> {
    let txt = std::fs::read_to_string(path).unwrap_or_else(|e| panic!("MACHINERY: schema {}: {}", path, e));
    let v: Value = serde_json::from_str(&txt).expect("schema json");
    let mut out = HashMap::new();
    for d in v["docs"].as_array().unwrap() {
        let doc: PDoc = serde_json::from_value(d.clone()).expect("schema doc");
        out.insert(doc.name.clone(), doc);
    }
    out
}

fn h64<T: Hash>(x: &T) -> u64 {
    let mut h = DefaultHasher::new();
    x.hash(&mut h);
    h.finish()
}

pub fn mask(s: &str) -> String {
    let mut out = String::new();
    let mut in_tick = false;
    for c in s.chars() {
        if c == '`' {
            in_tick = !in_tick;
            if in_tick {
                out.push('_');
            }
            continue;
        }
        if in_tick {
            continue;
        }
        out.push(if c.is_ascii_digit() { '#' } else { c });
    }
    while out.contains("##") {
        out = out.replace("##", "#");
    }
    // "failed to decode Protobuf message: Named.e: invalid ..." -> drop the field path
    if let Some(i) = out.find("message: ") {
        let rest = &out[i + 9..];
        if let Some(j) = rest.rfind(": ") {
            out = format!("decode: {}", &rest[j + 2..]);
        } else {
            out = format!("decode: {}", rest);
        }
    }
    out.chars().take(70).collect()
}

pub fn dec_sig(d: &DecRes) -> String {
    match d {
        DecRes::Ok => "ok".into(),
        DecRes::Err(m) => format!("err:{}", mask(m)),
        DecRes::Panic(p) => p.clone(),
    }
}

pub struct Ctx<'a> {
    pub h: &'a Harness,
    pub docs: &'a HashMap<String, PDoc>,
    pub thorough: bool,
    pub only: Option<(String, String)>,
}

impl<'a> Ctx<'a> {
    fn entries(&self) -> Vec<&'a Entry> {
        self.h.entries.iter().filter(|e| self.only.as_ref().map_or(true, |(d, t)| *d == e.doc && *t == e.fq)).collect()
    }
    fn depth(&self) -> usize {
        if self.thorough {
            2
        } else {
            1
        }
    }
}

fn case_json(e: &Entry, v: &PMsg, extra: Value) -> Value {
    json!({"doc": e.doc, "cfg": e.cfg, "ty": e.fq, "show": v.show(), "x": extra})
}

fn hex(b: &[u8]) -> String {
    let mut s = String::new();
    for x in b.iter().take(96) {
        s.push_str(&format!("{:02x}", x));
    }
    if b.len() > 96 {
        s.push_str(&format!("..({} bytes)", b.len()));
    }
    s
}

fn strip_neg_zero(v: &PMsg) -> PMsg {
    fn ps(x: &PS) -> PS {
        match x {
            PS::F32(0x8000_0000) => PS::F32(0),
            PS::F64(0x8000_0000_0000_0000) => PS::F64(0),
            PS::M(m) => PS::M(strip_neg_zero(m)),
            o => o.clone(),
        }
    }
    PMsg(v.0.iter()
        .map(|(n, f)| {
            (
                *n,
                match f {
                    PF::One(x) => PF::One(ps(x)),
                    PF::Rep(v) => PF::Rep(v.iter().map(ps).collect()),
                    PF::Map(v) => PF::Map(v.iter().map(|(k, x)| (ps(k), ps(x))).collect()),
                },
            )
        })
        .collect())
}

/// "label/type" of the first field in which two normalised messages differ; tagged when the
/// only difference is the sign of a floating-point zero
fn diff_kind(doc: &PDoc, m: &PMessage, a: &PMsg, b: &PMsg) -> String {
    let k = diff_kind0(doc, m, a, b);
    if a != b && strip_neg_zero(a) == strip_neg_zero(b) {
        return format!("{}[negative-zero]", k);
    }
    k
}

fn diff_kind0(doc: &PDoc, m: &PMessage, a: &PMsg, b: &PMsg) -> String {
    for f in &m.fields {
        let (x, y) = (a.get(f.num), b.get(f.num));
        if x == y {
            continue;
        }
        let base = match f.label.as_str() {
            "map" => format!("map<{},{}>", f.key.as_deref().unwrap_or("?"), f.ty),
            l => format!("{}/{}", l, f.ty),
        };
        if let (Some(PF::One(PS::M(p))), Some(PF::One(PS::M(q)))) = (x, y) {
            if matches!(f.ty.as_str(), "message" | "group") {
                return format!("{}>{}", base, diff_kind0(doc, doc.msg(f.tyname.as_deref().unwrap()), p, q));
            }
        }
        return base;
    }
    "extra-field".into()
}

fn kinds_of(m: &PMessage, v: &PMsg) -> Vec<String> {
    let mut out = vec![];
    for (n, _) in &v.0 {
        if let Some(f) = m.fields.iter().find(|f| f.num == *n) {
            out.push(format!("{}/{}/{}", f.label, f.ty, f.key.as_deref().unwrap_or("-")));
        }
    }
    out
}

fn has_nan(v: &PMsg) -> bool {
    fn ps(x: &PS) -> bool {
        match x {
            PS::F32(b) => f32::from_bits(*b).is_nan(),
            PS::F64(b) => f64::from_bits(*b).is_nan(),
            PS::M(m) => has_nan(m),
            _ => false,
        }
    }
    v.0.iter().any(|(_, f)| match f {
        PF::One(x) => ps(x),
        PF::Rep(v) => v.iter().any(ps),
        PF::Map(v) => v.iter().any(|(k, x)| ps(k) || ps(x)),
    })
}

fn exec(e: &Entry, bytes: &[u8], buf: BufKind, mode: Mode, reencode: bool) -> Resp {
    (e.run)(&Req { bytes, buf, mode, reencode })
}

// ------------------------------------------------------------------------------------------
// C05

fn c05_one(col: &mut Collector, cx: &Ctx, e: &Entry, doc: &PDoc, m: &PMessage, v: &PMsg) {
    let e0 = pb::encode(doc, m, v);
    let want = pb::norm(doc, m, v);
    let half = e0.len() / 2;
    for buf in [BufKind::Bytes, BufKind::Slice, BufKind::Chain(1), BufKind::Chain(half)] {
        col.evaluations += 1;
        let r = exec(e, &e0, buf, Mode::Decode, true);
        let case = |x: Value| case_json(e, v, json!({"buf": format!("{:?}", buf), "bytes": hex(&e0), "more": x}));
        if r.dec != DecRes::Ok {
            col.outcome("decode-fail");
            col.fail(format!("C05|{}|decode|{}", e.cfg, dec_sig(&r.dec)), case(json!(null)), format!("{:?} on {}", r.dec, v.show()));
            continue;
        }
        if r.remaining != 0 {
            col.fail(format!("C05|{}|decode-consumed", e.cfg), case(json!(null)), format!("{} bytes left unread", r.remaining));
        }
        let val = r.value.as_ref().map(|x| pb::norm(doc, m, x)).unwrap_or_default();
        if val != want {
            // the value domain of this property is what the decoder produced (C06 decides
            // whether that is the intended value); counted so that a vacuous domain shows
            col.outcome("decoded-differs-from-intended(C06)");
        }
        let en = r.enc.as_ref().unwrap();
        if let Some(p) = &en.panic {
            col.fail(format!("C05|{}|encode|{}", e.cfg, p), case(json!(null)), p.clone());
            continue;
        }
        let kind = || kinds_of(m, v).first().cloned().unwrap_or_else(|| "empty".into());
        if en.encoded_len != en.bytes.len() {
            col.outcome("len-mismatch");
            col.fail(
                format!("C05|{}|encoded_len|{}", e.cfg, kind()),
                case(json!(null)),
                format!("encoded_len() = {} but {} bytes written for {}", en.encoded_len, en.bytes.len(), v.show()),
            );
        }
        if !en.exact_ok {
            col.fail(format!("C05|{}|encode-exact-window|{}", e.cfg, kind()), case(json!(null)), "encode into a buffer of exactly encoded_len() failed, differed, or wrote outside".into());
        }
        if !en.short_refused {
            col.fail(format!("C05|{}|encode-short-window|{}", e.cfg, kind()), case(json!(null)), "encode into a buffer one byte short was not refused cleanly".into());
        }
        let mut want_ld = Vec::new();
        pb::put_varint(&mut want_ld, en.bytes.len() as u64);
        want_ld.extend_from_slice(&en.bytes);
        if en.ld != want_ld {
            col.fail(format!("C05|{}|length-delimited-encode", e.cfg), case(json!(null)), "encode_length_delimited differs from varint(len) + encode".into());
        }
        match &en.again {
            Err(x) => {
                col.outcome("redecode-fail");
                col.fail(format!("C05|{}|redecode|{}|{}", e.cfg, kind(), mask(x)), case(json!({"out": hex(&en.bytes)})), format!("decoding pilota's own output failed: {}", x));
            }
            Ok((pm2, rem2, eq)) => {
                let got = pb::norm(doc, m, pm2);
                if got != val {
                    col.outcome("roundtrip-differs");
                    col.fail(
                        format!("C05|{}|roundtrip|{}", e.cfg, diff_kind(doc, m, &val, &got)),
                        case(json!({"out": hex(&en.bytes)})),
                        format!("decode(encode(x)) != x: x = {} but got {}", val.show(), got.show()),
                    );
                } else if !*eq && !has_nan(&val) {
                    col.fail(format!("C05|{}|roundtrip-eq|{}", e.cfg, kind()), case(json!(null)), "decode(encode(x)) != x under PartialEq".into());
                } else {
                    col.outcome("roundtrip-ok");
                }
                if *rem2 != 0 {
                    col.fail(format!("C05|{}|redecode-consumed", e.cfg), case(json!(null)), format!("{} bytes left", rem2));
                }
            }
        }
        // length-delimited framing: trailing bytes stay unread
        if buf == BufKind::Bytes || buf == BufKind::Chain(1) {
            col.evaluations += 1;
            let mut framed = want_ld.clone();
            framed.extend_from_slice(&[0xEE, 0xEE, 0xEE]);
            let r2 = exec(e, &framed, buf, Mode::LenDelim { trailing: 3 }, true);
            if r2.dec != DecRes::Ok {
                col.fail(format!("C05|{}|length-delimited-decode|{}", e.cfg, dec_sig(&r2.dec)), case(json!(null)), format!("{:?}", r2.dec));
            } else {
                if r2.remaining != 3 {
                    col.fail(format!("C05|{}|length-delimited-consumed", e.cfg), case(json!(null)), format!("{} bytes left, 3 expected", r2.remaining));
                }
                let v2 = r2.value.as_ref().map(|x| pb::norm(doc, m, x)).unwrap_or_default();
                if v2 != val {
                    col.fail(format!("C05|{}|length-delimited-value|{}", e.cfg, diff_kind(doc, m, &val, &v2)), case(json!(null)), format!("{} vs {}", val.show(), v2.show()));
                }
            }
        }
        for k in kinds_of(m, v) {
            col.states.insert(h64(&k));
            col.transitions.insert(h64(&(k, format!("{:?}", buf).len())));
        }
    }
}

pub fn c05(cx: &Ctx, col: &mut Collector) {
    for e in cx.entries() {
        let doc = &cx.docs[&e.doc];
        let m = doc.msg(&e.fq);
        let sp = Space { doc, thorough: cx.thorough, pairs: cx.thorough, huge: true };
        for v in sp.values(m, cx.depth()) {
            if !col.next_case(&format!("{}:{}", e.doc, e.ty)) {
                continue;
            }
            col.nontrivial += (!v.0.is_empty()) as u64;
            c05_one(col, cx, e, doc, m, &v);
        }
    }
}

// ------------------------------------------------------------------------------------------
// C06

fn choice_kind(c: PChoice) -> &'static str {
    match c {
        PChoice::Order(_) => "order",
        PChoice::Packing => "packing",
        PChoice::MapEntry => "map-entry",
        PChoice::DefaultOmitted => "default-omitted",
    }
}

fn c06_one(col: &mut Collector, cx: &Ctx, e: &Entry, doc: &PDoc, m: &PMessage, v: &PMsg) {
    let want = pb::norm(doc, m, v);
    let bound = if cx.thorough { 2 } else { 1 };
    let max_runs = if cx.thorough { 4000 } else { 400 };
    let mut pending: Vec<(String, Value, String)> = vec![];
    let mut evals = 0u64;
    let mut outcomes: Vec<&'static str> = vec![];
    let mut trans: Vec<u64> = vec![];
    let st = explore::explore(bound, max_runs, |ec| {
        let mut devs: Vec<&'static str> = vec![];
        let bytes = {
            let mut ch = |c: PChoice| {
                let k = ec.choose(pb::arity(c));
                if k != 0 {
                    devs.push(choice_kind(c));
                }
                k
            };
            pb::encode_with(doc, m, v, &mut ch)
        };
        evals += 1;
        let choices = ec.choices();
        let r = exec(e, &bytes, BufKind::Bytes, Mode::Decode, true);
        let case = |x: Value| case_json(e, v, json!({"choices": choices, "bytes": hex(&bytes), "more": x}));
        let devname = if devs.is_empty() { "canonical".to_string() } else { devs.join("+") };
        for k in kinds_of(m, v) {
            trans.push(h64(&(k, devname.clone())));
        }
        if r.dec != DecRes::Ok {
            outcomes.push("decode-fail");
            pending.push((format!("C06|{}|decode-conforming|{}|{}", e.cfg, devname, dec_sig(&r.dec)), case(json!(null)), format!("{:?} on a conforming encoding of {}", r.dec, v.show())));
            return;
        }
        if r.remaining != 0 {
            pending.push((format!("C06|{}|decode-consumed", e.cfg), case(json!(null)), format!("{} bytes left", r.remaining)));
        }
        let got = pb::norm(doc, m, r.value.as_ref().unwrap());
        if got != want {
            outcomes.push("decoded-value-differs");
            pending.push((
                format!("C06|{}|decoded-value|{}|{}", e.cfg, devname, diff_kind(doc, m, &want, &got)),
                case(json!(null)),
                format!("a conforming encoding of {} decodes to {}", want.show(), got.show()),
            ));
        } else {
            outcomes.push("decoded-value-ok");
        }
        let en = r.enc.as_ref().unwrap();
        if let Some(p) = &en.panic {
            pending.push((format!("C06|{}|encode|{}", e.cfg, p), case(json!(null)), p.clone()));
            return;
        }
        // pilota's bytes read by the independent decoder; the expectation is the value pilota
        // holds (field read-out), so a wrong decode is not reported twice
        match pb::decode_strict(doc, m, &en.bytes) {
            Err(x) => {
                outcomes.push("wire-invalid");
                pending.push((format!("C06|{}|encoded-wire-invalid|{}", e.cfg, format!("{:?}", x).split('(').next().unwrap_or("")), case(json!({"out": hex(&en.bytes)})), format!("the reference decoder rejects pilota's encoding of {}: {:?}", got.show(), x)));
            }
            Ok(back) => {
                let back = pb::norm(doc, m, &back);
                if back != got {
                    outcomes.push("wire-value-differs");
                    pending.push((
                        format!("C06|{}|encoded-wire|{}", e.cfg, diff_kind(doc, m, &got, &back)),
                        case(json!({"out": hex(&en.bytes)})),
                        format!("pilota holds {} but its bytes mean {} to a conforming decoder", got.show(), back.show()),
                    ));
                } else {
                    outcomes.push("wire-ok");
                }
            }
        }
    });
    col.evaluations += evals;
    col.count("encodings", st.runs);
    if st.capped {
        col.count("values_with_capped_encoding_enumeration", 1);
    }
    for o in outcomes {
        col.outcome(o);
    }
    for t in trans {
        col.transitions.insert(t);
    }
    for k in kinds_of(m, v) {
        col.states.insert(h64(&k));
    }
    for (s, c, d) in pending {
        col.fail(s, c, d);
    }
}

pub fn c06(cx: &Ctx, col: &mut Collector) {
    for e in cx.entries() {
        let doc = &cx.docs[&e.doc];
        let m = doc.msg(&e.fq);
        let sp = Space { doc, thorough: cx.thorough, pairs: cx.thorough, huge: false };
        for v in sp.values(m, cx.depth()) {
            if !col.next_case(&format!("{}:{}", e.doc, e.ty)) {
                continue;
            }
            col.nontrivial += (!v.0.is_empty()) as u64;
            c06_one(col, cx, e, doc, m, &v);
        }
    }
    if col.counters.get("values_with_capped_encoding_enumeration").copied().unwrap_or(0) > 0 {
        col.caps.push("encoding enumeration capped for some values (counter values_with_capped_encoding_enumeration)".into());
    }
}

// ------------------------------------------------------------------------------------------
// C18

fn unknown_records() -> Vec<(&'static str, Node)> {
    let leaf = |b: Vec<u8>| Node::Leaf(b);
    let k = |num: u32, wt: u8| {
        let mut o = Vec::new();
        pb::put_varint(&mut o, ((num as u64) << 3) | wt as u64);
        o
    };
    let cat = |a: Vec<u8>, b: &[u8]| {
        let mut a = a;
        a.extend_from_slice(b);
        a
    };
    const U: u32 = 7777;
    vec![
        ("varint", leaf(cat(k(U, 0), &[0x96, 0x01]))),
        ("varint10", leaf(cat(k(U, 0), &[0xff, 0xff, 0xff, 0xff, 0xff, 0xff, 0xff, 0xff, 0xff, 0x01]))),
        ("fixed64", leaf(cat(k(U, 1), &[1, 2, 3, 4, 5, 6, 7, 8]))),
        ("fixed32", leaf(cat(k(U, 5), &[1, 2, 3, 4]))),
        ("len-empty", leaf(cat(k(U, 2), &[0]))),
        ("len-bytes", leaf(cat(k(U, 2), &[3, 0xff, 0x08, 0x00]))),
        ("group-empty", Node::Msg { num: U, group: true, children: vec![] }),
        (
            "group-nested",
            Node::Msg {
                num: U,
                group: true,
                children: vec![
                    leaf(cat(k(1, 0), &[5])),
                    Node::Msg { num: 2, group: true, children: vec![leaf(cat(k(1, 2), &[2, 0x0c, 0x0c]))] },
                    leaf(cat(k(3, 5), &[9, 9, 9, 9])),
                ],
            },
        ),
        ("big-number", leaf(cat(k((1 << 29) - 2, 0), &[1]))),
    ]
}

fn decode_value(e: &Entry, doc: &PDoc, m: &PMessage, bytes: &[u8], mode: Mode) -> Result<PMsg, String> {
    let r = exec(e, bytes, BufKind::Bytes, mode, true);
    match &r.dec {
        DecRes::Ok => {
            if r.remaining != 0 {
                return Err(format!("left-{}-bytes", r.remaining.min(9)));
            }
            Ok(pb::norm(doc, m, r.value.as_ref().unwrap()))
        }
        d => Err(dec_sig(d)),
    }
}

fn c18_unknown(col: &mut Collector, cx: &Ctx, e: &Entry, doc: &PDoc, m: &PMessage, v: &PMsg) {
    let nodes = pb::encode_nodes(doc, m, v, &mut |_| 0);
    let plain = pb::flatten(&nodes);
    let want = match pb::decode(doc, m, &plain) {
        Ok(x) => pb::norm(doc, m, &x),
        Err(x) => panic!("MACHINERY: reference rejects its own encoding: {:?}", x),
    };
    let nb = pb::boundaries(&nodes);
    let unknowns = unknown_records();
    for b in 0..nb {
        let level = pb::boundary_level(&nodes, b);
        for (uname, u) in &unknowns {
            if !cx.thorough && b > 12 && (b + uname.len()) % 3 != 0 {
                continue;
            }
            col.evaluations += 1;
            let x = pb::flatten(&pb::insert_at(&nodes, b, u));
            let case = || case_json(e, v, json!({"boundary": b, "level": level, "unknown": uname, "bytes": hex(&x)}));
            col.states.insert(h64(&(uname, level.min(3))));
            for k in kinds_of(m, v) {
                col.transitions.insert(h64(&(k, uname, level.min(3))));
            }
            // the reference must agree that the insertion is invisible (guards the harness)
            match pb::decode(doc, m, &x) {
                Ok(r) if pb::norm(doc, m, &r) == want => {}
                other => panic!("MACHINERY: reference sees an unknown-field insertion: {:?}", other.map(|x| x.show())),
            }
            match decode_value(e, doc, m, &x, Mode::Decode) {
                Err(s) => {
                    col.outcome("unknown-rejected");
                    col.fail(format!("C18|{}|unknown-field|{}|level{}|{}", e.cfg, uname, level.min(3), s), case(), format!("decoding fails after inserting an unknown {} field: {}", uname, s));
                }
                Ok(got) => {
                    if got != want {
                        col.outcome("unknown-visible");
                        col.fail(
                            format!("C18|{}|unknown-field|{}|level{}|value:{}", e.cfg, uname, level.min(3), diff_kind(doc, m, &want, &got)),
                            case(),
                            format!("inserting an unknown field changes {} into {}", want.show(), got.show()),
                        );
                    } else {
                        col.outcome("unknown-ignored");
                    }
                }
            }
        }
    }
}

fn c18_pair(col: &mut Collector, cx: &Ctx, e: &Entry, doc: &PDoc, m: &PMessage, v1: &PMsg, v2: &PMsg) {
    let n1 = pb::encode_nodes(doc, m, v1, &mut |_| 0);
    let n2 = pb::encode_nodes(doc, m, v2, &mut |_| 0);
    let (e1, e2) = (pb::flatten(&n1), pb::flatten(&n2));
    let case = |x: Value| json!({"doc": e.doc, "cfg": e.cfg, "ty": e.fq, "show": format!("{} ++ {}", v1.show(), v2.show()), "x": x});
    // concatenation == decode first, merge second; both == the specification's merge
    let mut cat = e1.clone();
    cat.extend_from_slice(&e2);
    let spec = match pb::decode(doc, m, &cat) {
        Ok(x) => pb::norm(doc, m, &x),
        Err(x) => panic!("MACHINERY: reference rejects a concatenation: {:?}", x),
    };
    col.evaluations += 2;
    let whole = decode_value(e, doc, m, &cat, Mode::Decode);
    let split = decode_value(e, doc, m, &cat, Mode::MergeSplit(e1.len()));
    let kinds = {
        let mut k = kinds_of(m, v1);
        k.extend(kinds_of(m, v2));
        k.sort();
        k.dedup();
        k
    };
    for k in &kinds {
        col.states.insert(h64(k));
    }
    match (&whole, &split) {
        (Ok(a), Ok(b)) => {
            if a != b {
                col.outcome("concat-vs-merge-differs");
                col.fail(format!("C18|{}|concat-vs-merge|{}", e.cfg, diff_kind(doc, m, a, b)), case(json!({"bytes": hex(&cat)})), format!("decode(a++b) = {} but decode(a).merge(b) = {}", a.show(), b.show()));
            }
            if *a != spec {
                col.outcome("merge-differs-from-spec");
                col.fail(format!("C18|{}|merge-semantics|{}", e.cfg, diff_kind(doc, m, &spec, a)), case(json!({"bytes": hex(&cat)})), format!("decode(a++b) = {} but the specification gives {}", a.show(), spec.show()));
            } else {
                col.outcome("merge-ok");
            }
        }
        (a, b) => {
            col.outcome("merge-decode-fail");
            let s = a.as_ref().err().or(b.as_ref().err()).cloned().unwrap_or_default();
            col.fail(format!("C18|{}|concat-decode|{}", e.cfg, s), case(json!({"bytes": hex(&cat)})), format!("decoding a concatenation fails: {:?} / {:?}", a.as_ref().err(), b.as_ref().err()));
        }
    }
    // order-preserving interleavings of the two record sequences (top level), deviation bounded:
    // default = take from the first while it lasts
    let bound = if cx.thorough { 3 } else { 2 };
    let mut pending = vec![];
    let mut evals = 0;
    // large pairs (16 KiB strings, 140-element runs) cost milliseconds per decode: fewer interleavings
    let cap = if e1.len() + e2.len() > 4096 { 60 } else if cx.thorough { 1500 } else { 200 };
    let st = explore::explore(bound, cap, |ec| {
        let (mut i, mut j) = (0, 0);
        let mut seq: Vec<Node> = vec![];
        let mut switches = 0;
        while i < n1.len() || j < n2.len() {
            let from_second = if i < n1.len() && j < n2.len() { ec.choose(2) == 1 } else { i >= n1.len() };
            if from_second {
                seq.push(n2[j].clone());
                j += 1;
                switches += (i < n1.len()) as usize;
            } else {
                seq.push(n1[i].clone());
                i += 1;
            }
        }
        if switches == 0 {
            return; // the plain concatenation, done above
        }
        evals += 1;
        let x = pb::flatten(&seq);
        let spec = match pb::decode(doc, m, &x) {
            Ok(s) => pb::norm(doc, m, &s),
            Err(er) => panic!("MACHINERY: reference rejects an interleaving: {:?}", er),
        };
        match decode_value(e, doc, m, &x, Mode::Decode) {
            Ok(a) if a == spec => {}
            Ok(a) => pending.push((format!("C18|{}|interleaving|{}", e.cfg, diff_kind(doc, m, &spec, &a)), hex(&x), format!("interleaved records decode to {} but the specification gives {}", a.show(), spec.show()))),
            Err(s) => pending.push((format!("C18|{}|interleaving-decode|{}", e.cfg, s), hex(&x), s.clone())),
        }
    });
    col.evaluations += evals;
    col.count("interleavings", evals);
    if st.capped {
        col.count("pairs_with_capped_interleavings", 1);
    }
    for k in &kinds {
        col.transitions.insert(h64(&(k, "interleave")));
    }
    for (s, b, d) in pending {
        col.fail(s, case(json!({"bytes": b})), d);
    }
}

pub fn c18(cx: &Ctx, col: &mut Collector) {
    for e in cx.entries() {
        let doc = &cx.docs[&e.doc];
        let m = doc.msg(&e.fq);
        let sp = Space { doc, thorough: cx.thorough, pairs: false, huge: false };
        let vals = sp.values(m, cx.depth());
        // unknown fields: every value of the space
        for v in &vals {
            if !col.next_case(&format!("unknown:{}:{}", e.doc, e.ty)) {
                continue;
            }
            col.nontrivial += 1;
            c18_unknown(col, cx, e, doc, m, v);
        }
        // pairs: the "all fields" rows against each other and against single-field values;
        // same-field pairs for every field (last-wins / append / replace)
        let rows: Vec<&PMsg> = vals.iter().filter(|v| v.0.len() > 1).collect();
        let singles: Vec<&PMsg> = vals.iter().filter(|v| v.0.len() == 1).collect();
        let mut pairs: Vec<(&PMsg, &PMsg)> = vec![];
        let nrows = rows.len().min(12);
        for a in rows.iter().take(nrows) {
            for b in rows.iter().take(nrows) {
                pairs.push((a, b));
            }
        }
        let stride = if cx.thorough { 1 } else { 3 };
        for (i, s) in singles.iter().enumerate() {
            // same field: the next value of the same field (wraps), both orders
            let same: Vec<&&PMsg> = singles.iter().filter(|x| x.0[0].0 == s.0[0].0).collect();
            let pos = same.iter().position(|x| std::ptr::eq(**x, *s)).unwrap();
            let nxt = same[(pos + 1) % same.len()];
            pairs.push((s, nxt));
            if i % stride == 0 {
                for r in rows.iter().take(if cx.thorough { 6 } else { 2 }) {
                    pairs.push((s, r));
                    pairs.push((r, s));
                }
            }
            // a member of the same oneof group / another field
            if let Some(o) = singles.get(i + same.len()) {
                if i % stride == 0 {
                    pairs.push((s, o));
                }
            }
        }
        for (a, b) in pairs {
            if !col.next_case(&format!("pairs:{}:{}", e.doc, e.ty)) {
                continue;
            }
            col.nontrivial += 1;
            c18_pair(col, cx, e, doc, m, a, b);
        }
    }
    if col.counters.get("pairs_with_capped_interleavings").copied().unwrap_or(0) > 0 {
        col.caps.push("interleaving enumeration capped for some pairs (counter pairs_with_capped_interleavings)".into());
    }
}

// ------------------------------------------------------------------------------------------
// C10 / C19: faults

/// flattened bytes plus the offsets of every length prefix (offset, width, declared length)
fn flatten_annot(nodes: &[Node]) -> (Vec<u8>, Vec<(usize, usize, u64)>) {
    fn varint_at(b: &[u8], mut p: usize) -> (u64, usize) {
        let (mut r, mut s) = (0u64, 0);
        let start = p;
        loop {
            let x = b[p];
            p += 1;
            r |= ((x & 0x7f) as u64) << s;
            s += 7;
            if x & 0x80 == 0 {
                return (r, p - start);
            }
        }
    }
    fn go(nodes: &[Node], out: &mut Vec<u8>, lens: &mut Vec<(usize, usize, u64)>) {
        for n in nodes {
            match n {
                Node::Leaf(b) => {
                    let (k, kw) = varint_at(b, 0);
                    if k & 7 == 2 {
                        let (l, lw) = varint_at(b, kw);
                        lens.push((out.len() + kw, lw, l));
                    }
                    out.extend_from_slice(b);
                }
                Node::Msg { num, group, children } => {
                    let mut inner = Vec::new();
                    let mut inner_lens = Vec::new();
                    go(children, &mut inner, &mut inner_lens);
                    let mut head = Vec::new();
                    if *group {
                        pb::put_varint(&mut head, ((*num as u64) << 3) | 3);
                    } else {
                        pb::put_varint(&mut head, ((*num as u64) << 3) | 2);
                        let kw = head.len();
                        pb::put_varint(&mut head, inner.len() as u64);
                        lens.push((out.len() + kw, head.len() - kw, inner.len() as u64));
                    }
                    let base = out.len() + head.len();
                    out.extend_from_slice(&head);
                    out.extend_from_slice(&inner);
                    for (o, w, l) in inner_lens {
                        lens.push((base + o, w, l));
                    }
                    if *group {
                        pb::put_varint(out, ((*num as u64) << 3) | 4);
                    }
                }
            }
        }
    }
    let (mut out, mut lens) = (Vec::new(), Vec::new());
    go(nodes, &mut out, &mut lens);
    (out, lens)
}

struct FaultCx<'a> {
    prop: &'a str,
    max_size_of: usize,
    /// bytes allocated by decoding the unfaulted encoding (set per value)
    baseline_alloc: std::cell::Cell<usize>,
}

fn alloc_budget(fc: &FaultCx, len: usize) -> usize {
    (64 << 10) + len * 4 * (fc.max_size_of + 64)
}

/// one faulted input: the C10 oracle (total, bounded) or the C19 oracle (nothing retained)
fn fault_one(col: &mut Collector, fc: &FaultCx, e: &Entry, what: &str, bytes: &[u8], must_fail: bool, mode: Mode, case: &dyn Fn() -> Value) {
    fault_splits(col, fc, e, what, bytes, must_fail, mode, &[bytes.len() / 2], case)
}

/// `splits`: offsets at which the input is additionally delivered as two chunks
#[allow(clippy::too_many_arguments)]
fn fault_splits(col: &mut Collector, fc: &FaultCx, e: &Entry, what: &str, bytes: &[u8], must_fail: bool, mode: Mode, splits: &[usize], case: &dyn Fn() -> Value) {
    let mut bufs = vec![BufKind::Bytes];
    for s in splits {
        let k = BufKind::Chain((*s).min(bytes.len()));
        if !bufs.contains(&k) {
            bufs.push(k);
        }
    }
    for buf in bufs {
        if buf != BufKind::Bytes && (fc.prop == "C19" && matches!(mode, Mode::LenDelim { .. })) {
            continue;
        }
        col.evaluations += 1;
        let t0 = std::time::Instant::now();
        let r = exec(e, bytes, buf, mode, false);
        let ms = t0.elapsed().as_millis();
        let bk = if buf == BufKind::Bytes { "bytes" } else { "chain" };
        col.states.insert(h64(&(what, matches!(r.dec, DecRes::Ok))));
        col.transitions.insert(h64(&(what, bk, dec_sig(&r.dec))));
        if fc.prop == "C19" {
            match &r.dec {
                DecRes::Ok => col.outcome("decoded"),
                _ => {
                    col.outcome("failed-decode");
                    // a real leak repeats: the same input twice more, all three must retain memory
                    let repeats = r.live_after > r.live_before && (0..2).all(|_| {
                        let again = exec(e, bytes, buf, mode, false);
                        again.live_after > again.live_before
                    });
                    if r.live_after != r.live_before && !repeats {
                        col.outcome("live-bytes-changed-once-not-repeatable");
                    }
                    if repeats {
                        col.outcome("leak");
                        col.fail(
                            format!("C19|{}|pb|{}|leak:{}", e.cfg, bk, what),
                            case(),
                            format!("{} bytes stay allocated after a failed decode ({})", r.live_after as i64 - r.live_before as i64, dec_sig(&r.dec)),
                        );
                    }
                }
            }
            continue;
        }
        match &r.dec {
            DecRes::Panic(p) => {
                col.outcome("panic");
                col.fail(format!("C10|{}|{}|{}|{}", e.cfg, bk, what, p), case(), p.clone());
            }
            DecRes::Ok => {
                col.outcome("decoded");
                if must_fail {
                    col.fail(format!("C10|{}|{}|{}|accepted", e.cfg, bk, what), case(), "input that must be rejected was accepted".into());
                }
            }
            DecRes::Err(_) => col.outcome("rejected"),
        }
        let budget = alloc_budget(fc, bytes.len());
        if r.alloc_total > budget || r.alloc_max > budget {
            col.outcome("alloc-out-of-proportion");
            col.fail(
                format!("C10|{}|{}|{}|alloc-out-of-proportion", e.cfg, bk, what),
                case(),
                format!("{} bytes allocated (largest request {}) for {} input bytes", r.alloc_total, r.alloc_max, bytes.len()),
            );
        }
        // whatever precedes the corrupted prefix is decoded legitimately; the payload the
        // prefix promises (at least 127 bytes beyond the input for the large values) is not
        if must_fail && what.starts_with("len-beyond-input") && r.alloc_total > fc.baseline_alloc.get() + 2048 + bytes.len() {
            col.fail(format!("C10|{}|{}|{}|copied-before-rejecting", e.cfg, bk, what), case(), format!("{} bytes allocated before the oversized length prefix was rejected", r.alloc_total));
        }
        if ms > 2000 {
            col.slow += 1;
            col.fail(format!("C10|{}|{}|{}|slow", e.cfg, bk, what), case(), format!("{} ms", ms));
        }
    }
}

fn len_corruptions(declared: u64, remaining_after: usize) -> Vec<(&'static str, u64, bool)> {
    // (name, new declared length, exceeds the remaining input)
    let mut v = vec![];
    for (n, x) in [
        ("len+1", declared + 1),
        ("len-1", declared.wrapping_sub(1)),
        ("len-127", 127),
        ("len-2^14", 1 << 14),
        ("len-2^31-1", (1 << 31) - 1),
        ("len-2^32-1", (1 << 32) - 1),
        ("len-2^32", 1 << 32),
        ("len-2^63", 1 << 63),
        ("len-2^64-1", u64::MAX),
    ] {
        if x == declared {
            continue;
        }
        v.push((n, x, x > remaining_after as u64));
    }
    v
}

pub fn faults(cx: &Ctx, col: &mut Collector, prop: &str) {
    let max_size_of = cx.h.entries.iter().map(|e| e.size_of).max().unwrap_or(64);
    let fc = FaultCx { prop, max_size_of, baseline_alloc: std::cell::Cell::new(0) };
    for e in cx.entries() {
        let doc = &cx.docs[&e.doc];
        let m = doc.msg(&e.fq);
        let sp = Space { doc, thorough: cx.thorough, pairs: false, huge: false };
        let vals = sp.values(m, cx.depth());
        // faults of valid encodings: rows and a spread of single-field values
        let picked: Vec<&PMsg> = vals.iter().enumerate().filter(|(i, v)| v.0.len() > 1 || cx.thorough || i % 5 == 0).map(|(_, v)| v).collect();
        for v in picked {
            if !col.next_case(&format!("faults:{}:{}", e.doc, e.ty)) {
                continue;
            }
            col.nontrivial += 1;
            let nodes = pb::encode_nodes(doc, m, v, &mut |c| if c == PChoice::Packing { 1 } else { 0 });
            let (bytes, lens) = flatten_annot(&nodes);
            if bytes.len() > 3000 && !cx.thorough {
                continue;
            }
            let mk = |x: Value| case_json(e, v, x);
            fc.baseline_alloc.set(exec(e, &bytes, BufKind::Slice, Mode::Decode, false).alloc_total);
            // truncations
            let step = if bytes.len() > 600 { bytes.len() / 300 } else { 1 };
            let mut cut = 0;
            while cut < bytes.len() {
                fault_one(col, &fc, e, "truncation", &bytes[..cut], false, Mode::Decode, &|| mk(json!({"fault": "truncate", "at": cut, "bytes": hex(&bytes)})));
                cut += step;
            }
            // the same under length-delimited framing (prefix promises more than is there)
            let mut framed = Vec::new();
            pb::put_varint(&mut framed, bytes.len() as u64);
            framed.extend_from_slice(&bytes);
            let fstep = if cx.thorough { step } else { step.max(framed.len() / 40 + 1) };
            let mut cut = 0;
            while cut < framed.len() {
                fault_one(col, &fc, e, "framed-truncation", &framed[..cut], true, Mode::LenDelim { trailing: 0 }, &|| mk(json!({"fault": "framed-truncate", "at": cut, "bytes": hex(&framed)})));
                cut += fstep;
            }
            // bit flips
            let bits: &[u8] = if cx.thorough { &[0, 1, 2, 3, 4, 5, 6, 7] } else { &[0, 2, 7] };
            let bstep = if cx.thorough { step } else { step.max(bytes.len() / 120 + 1) };
            let mut pos = 0;
            while pos < bytes.len() {
                for b in bits {
                    let mut x = bytes.clone();
                    x[pos] ^= 1 << b;
                    fault_splits(col, &fc, e, "bit-flip", &x, false, Mode::Decode, &[x.len() / 2, pos, pos + 1], &|| mk(json!({"fault": "flip", "at": pos, "bit": b, "bytes": hex(&bytes)})));
                }
                pos += bstep;
            }
            // length prefixes
            for (off, w, declared) in &lens {
                let after = bytes.len() - off - w;
                for (name, newlen, beyond) in len_corruptions(*declared, after) {
                    let mut x = bytes[..*off].to_vec();
                    pb::put_varint(&mut x, newlen);
                    let new_w = x.len() - off;
                    x.extend_from_slice(&bytes[off + w..]);
                    let beyond = beyond && newlen > (x.len() - off - new_w) as u64;
                    let what = if beyond { format!("len-beyond-input:{}", name) } else { format!("len-corrupt:{}", name) };
                    fault_splits(col, &fc, e, &what, &x, beyond, Mode::Decode, &[x.len() / 2, *off, off + 1, off + new_w], &|| mk(json!({"fault": "length", "at": off, "new": newlen.to_string(), "bytes": hex(&bytes)})));
                }
                // the prefix replaced by a varint that never ends within 10 bytes (11 and 12 bytes
                // long, continuation bytes 0xff or 0x80), delivered contiguously and split at every
                // offset from the start of the varint to its end
                for (oname, cont, n, last) in [("overlong11-ff", 0xffu8, 10usize, 0x01u8), ("overlong11-80", 0x80, 10, 0x00), ("overlong12-ff", 0xff, 11, 0x7f), ("overlong10-ff-02", 0xff, 9, 0x02)] {
                    let mut x = bytes[..*off].to_vec();
                    x.extend(std::iter::repeat(cont).take(n));
                    x.push(last);
                    x.extend_from_slice(&bytes[off + w..]);
                    let splits: Vec<usize> = (off.saturating_sub(1)..=off + n + 1).collect();
                    let what = format!("len-varint:{}", oname);
                    fault_splits(col, &fc, e, &what, &x, true, Mode::Decode, &splits, &|| mk(json!({"fault": "overlong-length", "at": off, "kind": oname, "bytes": hex(&bytes)})));
                }
            }
            // the first key of the message replaced by an over-long varint
            if !bytes.is_empty() {
                for (oname, cont, n, last) in [("overlong11-ff", 0xffu8, 10usize, 0x01u8), ("overlong11-80", 0x80, 10, 0x00)] {
                    let mut x: Vec<u8> = std::iter::repeat(cont).take(n).collect();
                    x.push(last);
                    x.extend_from_slice(&bytes[1..]);
                    let splits: Vec<usize> = (1..=n + 1).collect();
                    let what = format!("key-varint:{}", oname);
                    fault_splits(col, &fc, e, &what, &x, true, Mode::Decode, &splits, &|| mk(json!({"fault": "overlong-key", "kind": oname, "bytes": hex(&bytes)})));
                }
            }
        }
        if prop == "C19" {
            continue;
        }
        // every byte string up to length 2, and length 3 / 4 over an alphabet of interesting bytes
        let alpha: Vec<u8> = {
            let mut a = vec![0x00, 0x01, 0x02, 0x03, 0x04, 0x05, 0x07, 0x08, 0x09, 0x0a, 0x0b, 0x0c, 0x0d, 0x0f, 0x10, 0x12, 0x1a, 0x1b, 0x1c, 0x7f, 0x80, 0x81, 0xff];
            for f in m.fields.iter().take(6) {
                if f.num < 16 {
                    for wt in [0u8, 1, 2, 3, 4, 5] {
                        a.push(((f.num as u8) << 3) | wt);
                    }
                }
            }
            a.sort();
            a.dedup();
            a
        };
        let all2 = cx.thorough || e.size_of % 2 == 0 || cx.entries().len() < 8;
        let mut strings: Vec<Vec<u8>> = vec![vec![]];
        if all2 {
            for a in 0..=255u8 {
                strings.push(vec![a]);
                for b in 0..=255u8 {
                    strings.push(vec![a, b]);
                }
            }
        }
        for a in &alpha {
            for b in &alpha {
                if !all2 {
                    strings.push(vec![*a, *b]);
                }
                for c in &alpha {
                    strings.push(vec![*a, *b, *c]);
                    if cx.thorough {
                        for d in &alpha {
                            strings.push(vec![*a, *b, *c, *d]);
                        }
                    }
                }
            }
        }
        // chunks of 512 strings per case keep the progress/shard bookkeeping cheap
        for chunk in strings.chunks(512) {
            if !col.next_case(&format!("strings:{}:{}", e.doc, e.ty)) {
                continue;
            }
            for s in chunk {
                let splits: Vec<usize> = (1..s.len()).collect();
                fault_splits(col, &fc, e, "all-strings", s, false, Mode::Decode, &splits, &|| json!({"doc": e.doc, "cfg": e.cfg, "ty": e.fq, "show": hex(s), "x": {"fault": "string"}}));
            }
        }
    }
    if prop == "C10" {
        nesting(cx, col, &fc);
    }
}

/// nesting depth 1..=300 (and far beyond in the thorough tier) through every recursive position
fn nesting(cx: &Ctx, col: &mut Collector, fc: &FaultCx) {
    let depths: Vec<usize> = {
        let mut d: Vec<usize> = (1..=300).collect();
        if cx.thorough {
            d.extend([1000, 10_000, 100_000, 1_000_000]);
        } else {
            d.extend([5000, 200_000]);
        }
        d
    };
    for e in cx.entries() {
        let doc = &cx.docs[&e.doc];
        let m = doc.msg(&e.fq);
        // recursive positions: fields whose type is the message itself
        let mut routes: Vec<(String, Box<dyn Fn(Vec<u8>) -> Vec<u8>>)> = vec![];
        for f in &m.fields {
            if f.tyname.as_deref() != Some(m.fq.as_str()) {
                continue;
            }
            let num = f.num;
            match (f.label.as_str(), f.ty.as_str()) {
                ("map", _) => {
                    routes.push((
                        format!("map-value:{}", f.name),
                        Box::new(move |inner: Vec<u8>| {
                            // entry { 2: inner }
                            let mut ent = Vec::new();
                            pb::put_varint(&mut ent, (2 << 3) | 2);
                            pb::put_varint(&mut ent, inner.len() as u64);
                            ent.extend_from_slice(&inner);
                            let mut o = Vec::new();
                            pb::put_varint(&mut o, ((num as u64) << 3) | 2);
                            pb::put_varint(&mut o, ent.len() as u64);
                            o.extend_from_slice(&ent);
                            o
                        }),
                    ));
                }
                (_, "group") => {
                    routes.push((
                        format!("group:{}", f.name),
                        Box::new(move |inner: Vec<u8>| {
                            let mut o = Vec::new();
                            pb::put_varint(&mut o, ((num as u64) << 3) | 3);
                            o.extend_from_slice(&inner);
                            pb::put_varint(&mut o, ((num as u64) << 3) | 4);
                            o
                        }),
                    ));
                }
                (l, _) => {
                    routes.push((
                        format!("{}:{}", l, f.name),
                        Box::new(move |inner: Vec<u8>| {
                            let mut o = Vec::new();
                            pb::put_varint(&mut o, ((num as u64) << 3) | 2);
                            pb::put_varint(&mut o, inner.len() as u64);
                            o.extend_from_slice(&inner);
                            o
                        }),
                    ));
                }
            }
        }
        // unknown groups nest in every message type (skip_field recursion)
        routes.push((
            "unknown-group".into(),
            Box::new(|inner: Vec<u8>| {
                let mut o = Vec::new();
                pb::put_varint(&mut o, (7777 << 3) | 3);
                o.extend_from_slice(&inner);
                pb::put_varint(&mut o, (7777 << 3) | 4);
                o
            }),
        ));
        for (rname, wrap) in &routes {
            if rname == "unknown-group" && !cx.thorough && e.size_of % 3 != 0 && cx.only.is_none() {
                continue;
            }
            // length-prefixed routes: built incrementally (d grows by wrapping; quadratic, so far
            // depths only for groups, whose encoding is d start keys followed by d end keys)
            let mut cur: Vec<u8> = Vec::new();
            let mut built = 0usize;
            let is_group = rname.starts_with("group") || rname == "unknown-group";
            for &d in &depths {
                if d > 5000 && !is_group {
                    continue;
                }
                if is_group {
                    let unit = wrap(Vec::new());
                    let (open, close) = unit.split_at(unit.len() / 2);
                    cur = Vec::with_capacity(unit.len() * d);
                    for _ in 0..d {
                        cur.extend_from_slice(open);
                    }
                    for _ in 0..d {
                        cur.extend_from_slice(close);
                    }
                } else {
                    while built < d {
                        cur = wrap(std::mem::take(&mut cur));
                        built += 1;
                    }
                }
                if !col.next_case(&format!("nesting:{}:{}", e.doc, e.ty)) {
                    continue;
                }
                let must_fail = d > 100;
                let what = format!("nesting:{}", rname.split(':').next().unwrap());
                let bytes = cur.clone();
                let before = col.failures.len();
                fault_one(col, fc, e, &what, &bytes, must_fail, Mode::Decode, &|| json!({"doc": e.doc, "cfg": e.cfg, "ty": e.fq, "show": format!("{} nested {} deep", rname, d), "x": {"fault": "nesting", "route": rname, "depth": d}}));
                let _ = before;
                // shallow nesting must decode (a limit far below the documented one would
                // otherwise pass unnoticed)
                if d <= if rname.starts_with("map-value") { 32 } else { 64 } {
                    let r = exec(e, &bytes, BufKind::Bytes, Mode::Decode, false);
                    if r.dec != DecRes::Ok {
                        col.fail(format!("C10|{}|nesting-shallow-rejected|{}", e.cfg, what), json!({"doc": e.doc, "cfg": e.cfg, "ty": e.fq, "show": format!("{} nested {} deep", rname, d)}), format!("depth {} rejected: {:?}", d, r.dec));
                    }
                }
            }
            // the same route with something at the bottom: every kind of field of the message
            // (scalar, string, repeated, map entry, oneof member, embedded message) as the
            // innermost content, at every depth 1..=300 - the budget is also spent by what sits
            // at the deepest level
            if rname == "unknown-group" {
                continue;
            }
            let sp = Space { doc, thorough: false, pairs: false, huge: false };
            let mut seen_kinds: Vec<String> = vec![];
            let mut bottoms: Vec<(String, Vec<u8>)> = vec![];
            for v in sp.values(m, 0) {
                if v.0.len() != 1 {
                    continue;
                }
                let k = kinds_of(m, &v).first().cloned().unwrap_or_default();
                if seen_kinds.contains(&k) {
                    continue;
                }
                let b = pb::encode(doc, m, &v);
                if b.is_empty() {
                    continue;
                }
                seen_kinds.push(k.clone());
                bottoms.push((k, b));
            }
            for (bk, bottom) in bottoms.iter().take(if cx.thorough { 16 } else { 8 }) {
                let mut cur = bottom.clone();
                for d in 1..=300usize {
                    if is_group {
                        let unit = wrap(Vec::new());
                        let (open, close) = unit.split_at(unit.len() / 2);
                        let mut x = Vec::with_capacity(unit.len() * d + bottom.len());
                        for _ in 0..d {
                            x.extend_from_slice(open);
                        }
                        x.extend_from_slice(bottom);
                        for _ in 0..d {
                            x.extend_from_slice(close);
                        }
                        cur = x;
                    } else {
                        cur = wrap(std::mem::take(&mut cur));
                    }
                    // around the limit every depth, elsewhere every 7th (quick)
                    if !cx.thorough && !(90..=112).contains(&d) && d % 7 != 0 && d > 4 {
                        continue;
                    }
                    if !col.next_case(&format!("nesting-bottom:{}:{}", e.doc, e.ty)) {
                        continue;
                    }
                    let what = format!("nesting:{}+bottom", rname.split(':').next().unwrap());
                    let bytes = cur.clone();
                    fault_one(col, fc, e, &what, &bytes, d > 100, Mode::Decode, &|| json!({"doc": e.doc, "cfg": e.cfg, "ty": e.fq, "show": format!("{} nested {} deep around {}", rname, d, bk), "x": {"fault": "nesting", "route": rname, "depth": d, "bottom": bk}}));
                    if d <= 30 {
                        let r = exec(e, &bytes, BufKind::Bytes, Mode::Decode, false);
                        if r.dec != DecRes::Ok {
                            col.fail(format!("C10|{}|nesting-shallow-rejected|{}", e.cfg, what), json!({"doc": e.doc, "cfg": e.cfg, "ty": e.fq, "show": format!("{} nested {} deep around {}", rname, d, bk)}), format!("depth {} rejected: {:?}", d, r.dec));
                        }
                    }
                }
            }
        }
    }
}

// ------------------------------------------------------------------------------------------

pub fn run_check(cx: &Ctx, col: &mut Collector, check: &str) -> bool {
    match check {
        "C05" => c05(cx, col),
        "C06" => c06(cx, col),
        "C18" => c18(cx, col),
        "C10" => faults(cx, col, "C10"),
        "C19" => faults(cx, col, "C19"),
        _ => return false,
    }
    true
}

pub fn run(h: &Harness, docs: &HashMap<String, PDoc>, a: &Args) {
    let cx = Ctx { h, docs, thorough: a.thorough(), only: None };
    let mut col = Collector::new(&a.check, a);
    if a.check == "list" {
        for e in &h.entries {
            println!("{} {} {} {} size_of={}", e.doc, e.cfg, e.ty, e.fq, e.size_of);
        }
        return;
    }
    if !run_check(&cx, &mut col, &a.check) {
        eprintln!("MACHINERY: unknown check {}", a.check);
        std::process::exit(2);
    }
    col.finish(&a.out);
}

pub fn replay(h: &Harness, docs: &HashMap<String, PDoc>, a: &Args, r: &Value) -> Vec<(String, String)> {
    let mut a2 = a.clone();
    a2.progress = None;
    let prop = r["property"].as_str().unwrap_or("").to_string();
    let thorough = r["tier"].as_str() == Some("thorough");
    let case = &r["case"];
    let (doc, ty) = (case["doc"].as_str().unwrap_or("").to_string(), case["ty"].as_str().unwrap_or("").to_string());
    if !h.entries.iter().any(|e| e.doc == doc && e.fq == ty) {
        eprintln!("MACHINERY: type {}::{} is not in this harness", doc, ty);
        std::process::exit(2);
    }
    // replayed by re-running the check restricted to the recorded message type
    let cx = Ctx { h, docs, thorough, only: Some((doc, ty)) };
    let mut col = Collector::new(&prop, &a2);
    run_check(&cx, &mut col, &prop);
    col.failures.iter().map(|(s, g)| (s.clone(), g.detail.clone())).collect()
}

//! Monomorphic operation tables over generated protobuf types. Values are obtained by decoding
//! bytes; they are inspected (a) through the emitted field accessors (`ToPMsg`) and (b) by
//! encoding them.

use bytes::{Buf, Bytes};
use pilota::prost::Message;
use vcore::pbref::{PMsg, PS, PF};
use vcore::report::{catch, panic_sig, Caught};

pub trait ToPMsg {
    fn to_pmsg(&self) -> PMsg;
}
pub trait OneofPut {
    fn put(&self, m: &mut PMsg);
}
impl<T: OneofPut> OneofPut for Box<T> {
    fn put(&self, m: &mut PMsg) {
        (**self).put(m)
    }
}
pub trait Scalar {
    fn ps(&self) -> PS;
}
macro_rules! sc {
    ($t:ty, $x:ident => $e:expr) => {
        impl Scalar for $t {
            fn ps(&self) -> PS {
                let $x = self;
                $e
            }
        }
    };
}
sc!(i32, x => PS::I(*x as i64));
sc!(i64, x => PS::I(*x));
sc!(u32, x => PS::U(*x as u64));
sc!(u64, x => PS::U(*x));
sc!(f32, x => PS::F32(x.to_bits()));
sc!(f64, x => PS::F64(x.to_bits()));
sc!(bool, x => PS::B(*x));
sc!(pilota::FastStr, x => PS::S(x.as_bytes().to_vec()));
sc!(String, x => PS::S(x.as_bytes().to_vec()));
sc!(Bytes, x => PS::S(x.to_vec()));
sc!(Vec<u8>, x => PS::S(x.clone()));
impl<T: Scalar> Scalar for Box<T> {
    fn ps(&self) -> PS {
        (**self).ps()
    }
}

pub fn one<T: Scalar>(m: &mut PMsg, n: u32, x: &T) {
    m.0.push((n, PF::One(x.ps())));
}
pub fn opt<T: Scalar>(m: &mut PMsg, n: u32, x: &Option<T>) {
    if let Some(x) = x {
        m.0.push((n, PF::One(x.ps())));
    }
}
pub fn rep<T: Scalar>(m: &mut PMsg, n: u32, x: &[T]) {
    if !x.is_empty() {
        m.0.push((n, PF::Rep(x.iter().map(|e| e.ps()).collect())));
    }
}
pub fn map<'a, K: Scalar + 'a, V: Scalar + 'a>(m: &mut PMsg, n: u32, x: impl IntoIterator<Item = (&'a K, &'a V)>) {
    let e: Vec<(PS, PS)> = x.into_iter().map(|(k, v)| (k.ps(), v.ps())).collect();
    if !e.is_empty() {
        m.0.push((n, PF::Map(e)));
    }
}

#[derive(Clone, Copy, Debug, PartialEq)]
pub enum BufKind {
    /// `bytes::Bytes` (zero-copy `copy_to_bytes`)
    Bytes,
    /// `&[u8]`
    Slice,
    /// two chunks split at the given offset (non-contiguous: varint slow path, copying reads)
    Chain(usize),
}

#[derive(Clone, Copy, Debug, PartialEq)]
pub enum Mode {
    Decode,
    /// varint length prefix + message + `trailing` bytes that must stay unread
    LenDelim { trailing: usize },
    /// decode bytes[..k], then `merge` bytes[k..] into the value
    MergeSplit(usize),
}

pub struct Req<'a> {
    pub bytes: &'a [u8],
    pub buf: BufKind,
    pub mode: Mode,
    pub reencode: bool,
}

#[derive(Debug, Clone, PartialEq)]
pub enum DecRes {
    Ok,
    Err(String),
    Panic(String),
}

#[derive(Debug, Clone)]
pub struct EncInfo {
    pub bytes: Vec<u8>,
    pub encoded_len: usize,
    /// `encode` into a buffer of exactly encoded_len succeeded and filled it
    pub exact_ok: bool,
    /// `encode` into a buffer one byte too short was refused without writing past it
    pub short_refused: bool,
    /// `encode_length_delimited_to_vec`
    pub ld: Vec<u8>,
    /// decoding the output again: Ok(value, remaining) or error text
    pub again: Result<(PMsg, usize, bool), String>,
    pub panic: Option<String>,
}

pub struct Resp {
    pub dec: DecRes,
    pub remaining: usize,
    pub value: Option<PMsg>,
    pub enc: Option<EncInfo>,
    pub live_before: usize,
    pub live_after: usize,
    pub alloc_total: usize,
    pub alloc_max: usize,
    pub debug: String,
}

pub struct Entry {
    pub doc: String,
    pub cfg: &'static str,
    pub ty: String,
    /// fully qualified proto name
    pub fq: String,
    pub run: fn(&Req) -> Resp,
    pub size_of: usize,
}

pub fn entry<T: Message + Default + ToPMsg + PartialEq + std::fmt::Debug + 'static>(doc: &str, cfg: &'static str, ty: &str, fq: &str) -> Entry {
    Entry { doc: doc.into(), cfg, ty: ty.into(), fq: fq.into(), run: run::<T>, size_of: std::mem::size_of::<T>() }
}

fn dec_with<T: Message + Default>(bytes: &[u8], kind: BufKind, mode: Mode) -> Result<(T, usize), pilota::prost::DecodeError> {
    fn go<T: Message + Default, B: Buf>(mut b: B, mode: Mode, split_src: &[u8], kind: BufKind) -> Result<(T, usize), pilota::prost::DecodeError> {
        match mode {
            Mode::Decode => {
                let v = T::decode(&mut b)?;
                Ok((v, b.remaining()))
            }
            Mode::LenDelim { .. } => {
                let v = T::decode_length_delimited(&mut b)?;
                Ok((v, b.remaining()))
            }
            Mode::MergeSplit(_) => {
                let _ = (split_src, kind);
                unreachable!()
            }
        }
    }
    if let Mode::MergeSplit(k) = mode {
        let (v, rem) = dec_with::<T>(&bytes[..k], kind, Mode::Decode)?;
        let mut v = v;
        let (a, b) = (&bytes[k..], rem);
        let _ = b;
        return match kind {
            BufKind::Bytes => {
                let mut bb = Bytes::copy_from_slice(a);
                v.merge(&mut bb)?;
                Ok((v, rem + bb.remaining()))
            }
            _ => {
                let mut s = a;
                v.merge(&mut s)?;
                Ok((v, rem + s.remaining()))
            }
        };
    }
    match kind {
        BufKind::Bytes => go::<T, _>(Bytes::copy_from_slice(bytes), mode, bytes, kind),
        BufKind::Slice => go::<T, _>(bytes, mode, bytes, kind),
        BufKind::Chain(k) => {
            let k = k.min(bytes.len());
            go::<T, _>(Buf::chain(&bytes[..k], &bytes[k..]), mode, bytes, kind)
        }
    }
}

pub const SENTINEL: u8 = 0xA5;

fn enc_info<T: Message + Default + ToPMsg + PartialEq>(v: &T) -> EncInfo {
    let mut info = EncInfo { bytes: vec![], encoded_len: 0, exact_ok: false, short_refused: true, ld: vec![], again: Err("not run".into()), panic: None };
    let r = catch(|| {
        let len = v.encoded_len();
        let out = v.encode_to_vec();
        // exact-size window followed by painted slack
        let mut win = vec![SENTINEL; len + 32];
        let exact_ok = {
            let mut s: &mut [u8] = &mut win[..len];
            let ok = v.encode(&mut s).is_ok() && s.is_empty();
            ok
        } && win[len..].iter().all(|b| *b == SENTINEL)
            && win[..len] == out[..];
        let short_refused = if len == 0 {
            true
        } else {
            let mut win2 = vec![SENTINEL; len + 32];
            let refused = {
                let mut s: &mut [u8] = &mut win2[..len - 1];
                v.encode(&mut s).is_err()
            };
            refused && win2.iter().all(|b| *b == SENTINEL)
        };
        let ld = v.encode_length_delimited_to_vec();
        (len, out, exact_ok, short_refused, ld)
    });
    match r {
        Caught::Ok((len, out, e, s, ld)) => {
            info.encoded_len = len;
            info.exact_ok = e;
            info.short_refused = s;
            info.ld = ld;
            let again = catch(|| {
                let mut b = Bytes::copy_from_slice(&out);
                T::decode(&mut b).map(|t| (t.to_pmsg(), b.remaining(), t == *v))
            });
            info.again = match again {
                Caught::Ok(Ok(x)) => Ok(x),
                Caught::Ok(Err(e)) => Err(format!("err:{}", e)),
                Caught::Panic(l, m) => Err(panic_sig(&l, &m)),
            };
            info.bytes = out;
        }
        Caught::Panic(l, m) => info.panic = Some(panic_sig(&l, &m)),
    }
    info
}

fn run<T: Message + Default + ToPMsg + PartialEq + std::fmt::Debug>(r: &Req) -> Resp {
    let live_before = vcore::alloc::live();
    vcore::alloc::window_start();
    let mut resp = Resp { dec: DecRes::Ok, remaining: 0, value: None, enc: None, live_before, live_after: 0, alloc_total: 0, alloc_max: 0, debug: String::new() };
    {
        let res = catch(|| dec_with::<T>(r.bytes, r.buf, r.mode));
        let s = vcore::alloc::window_read();
        resp.alloc_total = s.total;
        resp.alloc_max = s.maxreq;
        let decoded = match res {
            Caught::Ok(Ok((v, rem))) => {
                resp.remaining = rem;
                Some(v)
            }
            Caught::Ok(Err(e)) => {
                resp.dec = DecRes::Err(format!("{}", e));
                drop(e);
                None
            }
            Caught::Panic(l, m) => {
                resp.dec = DecRes::Panic(panic_sig(&l, &m));
                None
            }
        };
        if let Some(v) = &decoded {
            if r.reencode {
                resp.value = Some(v.to_pmsg());
                resp.enc = Some(enc_info(v));
                if std::env::var_os("VERIF_DEBUG_VALUES").is_some() {
                    resp.debug = format!("{:?}", v);
                }
            }
        }
        drop(decoded);
    }
    // the response's own strings (error text) are not the decoder's
    let own = match &resp.dec {
        DecRes::Err(s) | DecRes::Panic(s) => s.capacity(),
        DecRes::Ok => 0,
    };
    resp.live_after = vcore::alloc::live() - own;
    resp
}

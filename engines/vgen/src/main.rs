//! Runs pilota_build::Builder once, in this process, for one (document, configuration).
//! A generator panic / exit is observed by the caller through the exit status.
//!
//! vgen <thrift|proto> --out <file-or-dir> [--workspace] [--split] [--keep] [--no-change-case]
//!      [--ignore-unused] [--dedup <name,name..>] [--touch <file>:<Item,Item..>]... [--include <dir>]... <idl>...
use pilota_build::{Builder, IdlService, Output};
use std::path::PathBuf;

fn main() {
    let mut args = std::env::args().skip(1);
    let mode = args.next().expect("mode");
    let mut out: Option<PathBuf> = None;
    let (mut workspace, mut split, mut keep, mut change_case, mut ignore_unused) = (false, false, false, true, false);
    let mut includes: Vec<PathBuf> = vec![];
    let mut idls: Vec<PathBuf> = vec![];
    let mut dedup: Vec<String> = vec![];
    let mut touches: Vec<(PathBuf, Vec<String>)> = vec![];
    while let Some(a) = args.next() {
        match a.as_str() {
            "--out" => out = Some(PathBuf::from(args.next().unwrap())),
            "--workspace" => workspace = true,
            "--split" => split = true,
            "--keep" => keep = true,
            "--no-change-case" => change_case = false,
            "--ignore-unused" => ignore_unused = true,
            "--include" => includes.push(PathBuf::from(args.next().unwrap())),
            "--touch" => {
                let v = args.next().unwrap();
                let (file, items) = v.rsplit_once(':').expect("--touch file:items");
                touches.push((PathBuf::from(file), items.split(',').filter(|x| !x.is_empty()).map(|x| x.to_string()).collect()));
            }
            "--dedup" => dedup = args.next().unwrap().split(',').filter(|x| !x.is_empty()).map(|x| x.to_string()).collect(),
            x => idls.push(PathBuf::from(x)),
        }
    }
    let out = out.expect("--out");
    let output = if workspace { Output::Workspace(out) } else { Output::File(out) };
    let services: Vec<IdlService> = idls.iter().map(|p| IdlService::from_path(p.clone())).collect();
    match mode.as_str() {
        "thrift" => {
            let mut b = Builder::thrift()
                .ignore_unused(ignore_unused)
                .split_generated_files(split)
                .change_case(change_case);
            if !includes.is_empty() {
                b = b.include_dirs(includes);
            }
            if keep {
                b = b.keep_unknown_fields(idls.clone());
            }
            if !dedup.is_empty() {
                b = b.dedup(dedup.iter().map(|x| x.clone().into()));
            }
            if !touches.is_empty() {
                b = b.touch(touches.clone());
            }
            b.compile_with_config(services, output);
        }
        "proto" => {
            let mut b = Builder::protobuf()
                .ignore_unused(ignore_unused)
                .split_generated_files(split)
                .change_case(change_case);
            b = b.include_dirs(includes);
            if !dedup.is_empty() {
                b = b.dedup(dedup.iter().map(|x| x.clone().into()));
            }
            b.compile_with_config(services, output);
        }
        _ => panic!("mode"),
    }
}

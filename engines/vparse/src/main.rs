mod ast;
mod corpus;

use ast::*;
use pilota_thrift_parser::parser::Parser;
use pilota_thrift_parser::File;
use serde_json::json;
use std::collections::HashSet;
use std::hash::{Hash, Hasher};
use vcore::explore::{self, Ctx};
use vcore::report::{catch, install_silent_panic_hook, panic_sig, Args, Caught, Collector};

#[derive(Debug)]
enum Out {
    /// (debug of items, debug of package, leftover)
    Ok(String, String, String),
    Err,
    Panic(String),
}

fn parse(text: &str) -> Out {
    match catch(|| File::parse(text)) {
        Caught::Ok(Ok((rest, f))) => Out::Ok(format!("{:?}", f.items), format!("{:?}", f.package), rest.to_string()),
        Caught::Ok(Err(_)) => Out::Err,
        Caught::Panic(loc, msg) => Out::Panic(panic_sig(&loc, &msg)),
    }
}

fn expected(items: &[Item]) -> (String, String) {
    let p: Vec<pilota_thrift_parser::Item> = items.iter().map(to_pilota).collect();
    let pkg = items.iter().find_map(|i| match i {
        Item::Namespace { scope, path, .. } if scope == "rs" => {
            Some(pilota_thrift_parser::Path { segments: std::sync::Arc::from(path.iter().map(|x| pilota_thrift_parser::Ident(std::sync::Arc::from(x.as_str()))).collect::<Vec<_>>()) })
        }
        _ => None,
    });
    (format!("{:?}", p), format!("{:?}", pkg))
}

fn h(s: &str) -> u64 {
    let mut x = std::collections::hash_map::DefaultHasher::new();
    s.hash(&mut x);
    x.finish()
}

/// one AST under all layouts within the deviation bound
fn check_doc(col: &mut Collector, seen: &mut HashSet<u64>, name: &str, kind: &str, items: &[Item], bound: usize, cap: u64) {
    let toks = print_items(items);
    let (want_items, want_pkg) = expected(items);
    // the default layout first: if it already fails, the deviations would only repeat that failure
    let default_failed = std::cell::Cell::new(false);
    let first = std::cell::Cell::new(true);
    let mut body = |ctx: &mut Ctx| {
        let is_first = first.get();
        first.set(false);
        let mut dev: Vec<String> = Vec::new();
        let text = layout(&toks, &mut |n| ctx.choose(n), &mut dev);
        col.evaluations += 1;
        if seen.insert(h(&text)) {
            col.nontrivial += 1;
        }
        // normalise deviation labels: the choice index matters for separators / quotes / ints,
        // for gaps only whether it is whitespace or a comment
        let devs = if dev.is_empty() { "default-layout".to_string() } else { dev.join("+") };
        let case = || json!({"name": name, "text": text, "choices": ctx.choices(), "kind": kind});
        match parse(&text) {
            Out::Ok(items_dbg, pkg_dbg, rest) => {
                if !rest.is_empty() {
                    default_failed.set(default_failed.get() | is_first);
                    col.outcome("leftover");
                    col.fail(format!("C15|{}|{}|leftover", name_class(name, kind), devs), case(), format!("unparsed: {:?}", &rest[..rest.len().min(40)]));
                } else if items_dbg != want_items {
                    default_failed.set(default_failed.get() | is_first);
                    col.outcome("ast-differs");
                    col.fail(format!("C15|{}|{}|ast-differs", name_class(name, kind), devs), case(), format!("text {:?}\n want {}\n got  {}", text, want_items, items_dbg));
                } else if pkg_dbg != want_pkg {
                    default_failed.set(default_failed.get() | is_first);
                    col.outcome("package-differs");
                    col.fail(format!("C15|{}|{}|package-differs", name_class(name, kind), devs), case(), format!("want {} got {}", want_pkg, pkg_dbg));
                } else {
                    col.outcome(if dev.is_empty() { "ok-default" } else { "ok-deviating" });
                }
            }
            Out::Err => {
                default_failed.set(default_failed.get() | is_first);
                col.outcome("parse-error");
                col.fail(format!("C15|{}|{}|parse-error", name_class(name, kind), devs), case(), format!("does not parse: {:?}", text));
            }
            Out::Panic(p) => {
                default_failed.set(default_failed.get() | is_first);
                col.outcome("panic");
                col.fail(format!("C15|{}|{}|{}", name_class(name, kind), devs, p), case(), format!("{:?}", text));
            }
        }
    };
    // default layout once, outside the explorer
    let mut c0 = Ctx::new(vec![]);
    body(&mut c0);
    if default_failed.get() {
        return;
    }
    let st = explore::explore(bound, cap, &mut body);
    if st.capped {
        col.caps.push(format!("layout cap {} hit", cap));
    }
}

/// signature component naming the construct: the item kind for layout cases, position:keyword
/// for the identifier sweep
fn name_class(name: &str, kind: &str) -> String {
    if name.contains(':') {
        // position:identifier -> position:keyword-prefix
        let (pos, id) = name.split_once(':').unwrap();
        let kw = corpus::KEYWORDS
            .iter()
            .chain(corpus::KEYWORDS2.iter())
            .filter(|k| id.starts_with(**k))
            .max_by_key(|k| k.len())
            .copied()
            .unwrap_or("");
        format!("ident@{}:{}*", pos, kw)
    } else {
        kind.to_string()
    }
}

fn doc_kind(items: &[Item]) -> String {
    if items.is_empty() {
        "empty".into()
    } else if items.len() == 1 {
        items[0].kind().into()
    } else {
        "multi".into()
    }
}

fn c15(a: &Args) {
    let mut col = Collector::new("C15", a);
    let th = a.thorough();
    let mut seen = HashSet::new();
    let (bound, cap) = if th { (2usize, 6_000_000u64) } else { (1usize, 50_000u64) };
    for (i, (label, items)) in corpus::items(th).iter().enumerate() {
        if !col.next_case("ast") {
            continue;
        }
        if col.samples.len() < 6 && i % 37 == 0 {
            let toks = print_items(items);
            col.sample(json!(layout(&toks, &mut |_| 0, &mut Vec::new())));
        }
        // pairs of deviations only for documents with <= 40 choice points
        let toks = print_items(items);
        // thorough: all triples of deviations for documents of <= 24 tokens, all pairs beyond
        let b = if th {
            if toks.len() <= 24 {
                3
            } else {
                2
            }
        } else {
            bound
        };
        check_doc(&mut col, &mut seen, &format!("ast#{}", i), &format!("{}[{}]", doc_kind(items), label), items, b, cap);
    }
    for (name, items) in corpus::keyword_prefixed() {
        if !col.next_case("keyword-prefixed-identifier") {
            continue;
        }
        if col.samples.len() < 10 && col.cur_index() % 501 == 0 {
            let toks = print_items(&items);
            col.sample(json!(layout(&toks, &mut |_| 0, &mut Vec::new())));
        }
        check_doc(&mut col, &mut seen, &name, &doc_kind(&items), &items, if th { 2 } else { 0 }, cap);
    }
    col.finish(&a.out);
}

// ------------------------------------------------------------------------------------------
// C16: totality

fn total_case(col: &mut Collector, seen: &mut HashSet<u64>, kind: &str, text: &str) {
    col.evaluations += 1;
    if seen.insert(h(text)) {
        col.nontrivial += 1;
    }
    let t0 = std::time::Instant::now();
    let r = parse(text);
    let ms = t0.elapsed().as_millis();
    match r {
        Out::Ok(..) => col.outcome("ok"),
        Out::Err => col.outcome("err"),
        Out::Panic(p) => {
            col.outcome("panic");
            let short: String = text.chars().take(300).collect();
            col.fail(format!("C16|{}|{}", kind, p), json!({"kind": kind, "text": if text.len() < 5000 { text.to_string() } else { short.clone() }, "len": text.len()}), format!("{:?}", short));
        }
    }
    if ms > 2000 {
        col.slow += 1;
        col.fail(format!("C16|{}|slow", kind), json!({"kind": kind, "len": text.len(), "text": text.chars().take(200).collect::<String>()}), format!("{} ms", ms));
    }
}

const TOKENS: [&str; 40] = [
    "struct", "union", "enum", "service", "const", "typedef", "include", "namespace", "required", "optional", "oneway", "throws", "extends", "void",
    "list", "map", "i32", "string", "true", "{", "}", "(", ")", "<", ">", "[", "]", ":", ",", ";", "=", ".", "-", "'", "\"", "1", "0x", "1e", "/*", "//",
];

/// tokens whose repetition nests (recursion depth = repetitions): only repeated <= 64 times
const NESTING: [&str; 8] = ["-", "[", "{", "<", "(", "list", "map", "set"];

fn split_tokens(text: &str) -> Vec<(usize, usize)> {
    // maximal runs of word characters, or single other non-space characters
    let b = text.as_bytes();
    let mut v = Vec::new();
    let mut i = 0;
    while i < b.len() {
        let c = b[i] as char;
        if c.is_whitespace() {
            i += 1;
        } else if c.is_ascii_alphanumeric() || c == '_' || c == '.' {
            let s = i;
            while i < b.len() && ((b[i] as char).is_ascii_alphanumeric() || b[i] == b'_' || b[i] == b'.') {
                i += 1;
            }
            v.push((s, i));
        } else if b[i] < 0x80 {
            v.push((i, i + 1));
            i += 1;
        } else {
            // multi-byte char: keep whole
            let s = i;
            i += 1;
            while i < b.len() && (b[i] & 0xc0) == 0x80 {
                i += 1;
            }
            v.push((s, i));
        }
    }
    v
}

fn c16(a: &Args) {
    let mut col = Collector::new("C16", a);
    let th = a.thorough();
    let mut seen = HashSet::new();
    // seed documents: default layout and a commented/multi-byte layout of corpus ASTs
    let mut seeds: Vec<String> = Vec::new();
    let all = corpus::items(false);
    let step = if th { 1 } else { 9 };
    for (_, items) in all.iter().step_by(step) {
        let toks = print_items(items);
        seeds.push(layout(&toks, &mut |_| 0, &mut Vec::new()));
    }
    // a larger realistic document with non-ASCII comments
    let big: Vec<Item> = all.iter().filter(|d| d.1.len() == 1).step_by(11).flat_map(|d| d.1.clone()).collect();
    let toks = print_items(&big);
    let mut k = 0usize;
    seeds.push(layout(
        &toks,
        &mut |n| {
            k += 1;
            if n >= 6 && k % 7 == 0 {
                n - 1 - (k % 3)
            } else {
                0
            }
        },
        &mut Vec::new(),
    ));
    seeds.push("// 用户信息 — комментарий\nstruct Üser { 1: string näme = 'ü' } # émoji 🎉\n".to_string());
    if col.samples.is_empty() {
        col.sample(json!(seeds[seeds.len() - 2].chars().take(300).collect::<String>()));
    }
    for seed in &seeds {
        // every prefix (at char boundaries)
        for (i, _) in seed.char_indices() {
            if col.next_case("prefix") {
                total_case(&mut col, &mut seen, "prefix", &seed[..i]);
            }
        }
        let toks = split_tokens(seed);
        for (ti, &(s, e)) in toks.iter().enumerate() {
            // delete / duplicate
            if col.next_case("delete") {
                total_case(&mut col, &mut seen, "delete", &format!("{}{}", &seed[..s], &seed[e..]));
            }
            if col.next_case("duplicate") {
                total_case(&mut col, &mut seen, "duplicate", &format!("{}{} {}{}", &seed[..s], &seed[s..e], &seed[s..e], &seed[e..]));
            }
            // replace by each alphabet token (every token in quick for short seeds, every 3rd otherwise)
            if th || toks.len() <= 40 || ti % 3 == 0 {
                for r in TOKENS.iter() {
                    if col.next_case("replace") {
                        total_case(&mut col, &mut seen, "replace", &format!("{}{}{}", &seed[..s], r, &seed[e..]));
                    }
                }
            }
            // number inflation
            let tok = &seed[s..e];
            if tok.chars().all(|c| c.is_ascii_digit()) {
                for n in [10usize, 11, 19, 20, 40] {
                    if col.next_case("inflate") {
                        total_case(&mut col, &mut seen, "inflate", &format!("{}{}{}", &seed[..s], "9".repeat(n), &seed[e..]));
                    }
                }
                for lit in [
                    "0x7fffffffffffffff", "0xffffffffffffffff", "0xfffffffffffffffff", "-9223372036854775808", "1e400", "1.5e-400", "1e99999999999999999999",
                    "-0x8000000000000000", "0x8000000000000000", "-0x7fffffffffffffff", "-0xffffffffffffffff", "-0x00008000000000000000", "0x10000000000000000",
                    "-9223372036854775809", "9223372036854775808", "-0", "-0x0", "0x", "-0x", "1e-", "0e0", "-.5e+3", "5.", "1e+400", "-1e400", "0x7FFFFFFFFFFFFFFF",
                ] {
                    if col.next_case("inflate") {
                        total_case(&mut col, &mut seen, "inflate", &format!("{}{}{}", &seed[..s], lit, &seed[e..]));
                    }
                }
            }
            // repetition (nesting tokens <= 64 times: deeper nesting is outside the statement)
            if ti % 5 == 0 || th {
                let nest = NESTING.contains(&tok);
                let reps: &[usize] = if nest { &[2, 64] } else { &[64, 4096, 60000] };
                for &n in reps {
                    if col.next_case("repeat") {
                        let mut t = String::with_capacity(seed.len() + n * (tok.len() + 1));
                        t.push_str(&seed[..s]);
                        for _ in 0..n {
                            t.push_str(tok);
                            if !nest {
                                t.push(' ');
                            }
                        }
                        t.push_str(&seed[e..]);
                        total_case(&mut col, &mut seen, "repeat", &t);
                    }
                }
            }
        }
    }
    // all strings of length <= 2 (4 thorough) over a 40-character alphabet
    let alpha: Vec<char> = "abi18 \n\t{}()<>[]:,;=.-+'\"\\/*#_0xeE9ZÜ\u{0}\r|&".chars().collect();
    let maxlen = if th { 4 } else { 2 };
    let mut idx = vec![0usize; 0];
    loop {
        let sstr: String = idx.iter().map(|i| alpha[*i]).collect();
        if col.next_case("short-string") {
            total_case(&mut col, &mut seen, "short-string", &sstr);
            // also as the tail of a plausible prefix
            for pre in ["const i32 X = ", "struct S { 1: ", "struct S { 1: i32 a = ", "typedef ", "enum E { A = ", "service S { void f(", "const string s = '"] {
                total_case(&mut col, &mut seen, "short-string-in-context", &format!("{}{}", pre, sstr));
            }
        }
        // next
        let mut k = 0;
        loop {
            if k == idx.len() {
                idx.push(0);
                break;
            }
            idx[k] += 1;
            if idx[k] < alpha.len() {
                break;
            }
            idx[k] = 0;
            k += 1;
        }
        if idx.len() > maxlen {
            break;
        }
    }
    // nesting depth 1..64 of types and constants
    for d in 1..=64usize {
        let mut ty = String::from("i32");
        let mut ty_map = String::from("i32");
        for _ in 0..d {
            ty = format!("list<{}>", ty);
            ty_map = format!("map<string, {}>", ty_map);
        }
        let cl = format!("{}1{}", "[".repeat(d), "]".repeat(d));
        let mut cm = String::from("1");
        for _ in 0..d {
            cm = format!("{{'k': {}}}", cm);
        }
        let neg = format!("{}1", "-".repeat(d));
        for (kind, text) in [
            ("nest-type", format!("typedef {} T", ty)),
            ("nest-type", format!("struct S {{ 1: {} f }}", ty_map)),
            ("nest-const", format!("const {} C = {}", ty, cl)),
            ("nest-const", format!("const {} C = {}", ty_map, cm)),
            ("nest-const", format!("struct S {{ 1: i64 f = {} }}", neg)),
            ("nest-const", format!("const i64 C = {}", neg)),
        ] {
            if col.next_case(kind) {
                total_case(&mut col, &mut seen, kind, &text);
            }
        }
    }
    col.finish(&a.out);
}

fn replay(a: &Args, path: &str) {
    let txt = std::fs::read_to_string(path).expect("read replay file");
    let v: serde_json::Value = serde_json::from_str(&txt).expect("parse replay file");
    let prop = v["property"].as_str().unwrap_or("");
    let want = v["sig"].as_str().unwrap_or("");
    let text = v["case"]["text"].as_str().unwrap_or("").to_string();
    let r1 = format!("{:?}", parse(&text));
    let r2 = format!("{:?}", parse(&text));
    if r1 != r2 {
        eprintln!("MACHINERY: nondeterministic replay");
        std::process::exit(2);
    }
    println!("INPUT {:?}", text.chars().take(400).collect::<String>());
    println!("OBSERVED {}", r1.chars().take(600).collect::<String>());
    let _ = a;
    let reproduced = if prop == "C16" {
        r1.starts_with("Panic")
    } else {
        // C15: the recorded text must parse completely (AST comparison needs the AST: replay the
        // verdict part that is decidable from the text alone; the full comparison is re-done by the check)
        want.ends_with("parse-error") && r1.starts_with("Err") || want.ends_with("leftover") && !r1.contains(", \"\")") || (want.contains("panic") && r1.starts_with("Panic")) || want.ends_with("ast-differs")
    };
    if reproduced {
        println!("REPRODUCED {}", want);
        std::process::exit(1);
    }
    println!("NOT-REPRODUCED {}", want);
    std::process::exit(0);
}

fn main() {
    let a = Args::parse();
    install_silent_panic_hook();
    if let Some(p) = a.replay.clone() {
        replay(&a, &p);
    }
    if a.check == "text" {
        // ad-hoc: parse the strings given through --t (debug aid)
        for (k, v) in &a.extra {
            if k == "t" {
                println!("{:?} -> {}", v, format!("{:?}", parse(v)).chars().take(300).collect::<String>());
            }
        }
        return;
    }
    // every parse runs on one thread with a 2 MiB stack (the statement's bound); a stack overflow
    // kills the worker and is attributed to the announced case by the driver
    let a2 = a.clone();
    let th = std::thread::Builder::new().stack_size(2 << 20).spawn(move || match a2.check.as_str() {
        "C15" => c15(&a2),
        "C16" => c16(&a2),
        x => {
            eprintln!("MACHINERY: unknown check {}", x);
            std::process::exit(2);
        }
    });
    match th.unwrap().join() {
        Ok(()) => {}
        Err(_) => {
            eprintln!("MACHINERY: engine thread panicked");
            std::process::exit(2);
        }
    }
}

//! Enumerated descriptor ASTs (DESIGN §3 C15).

use crate::ast::*;

pub const KEYWORDS: [&str; 28] = [
    "true", "false", "required", "optional", "oneway", "void", "string", "binary", "bool", "byte", "i8", "i16", "i32", "i64",
    "double", "uuid", "list", "set", "map", "const", "struct", "union", "enum", "service", "include", "namespace", "typedef", "throws",
];
pub const KEYWORDS2: [&str; 3] = ["extends", "exception", "cpp_include"];

fn s(x: &str) -> String {
    x.to_string()
}

pub fn ann1() -> Ann {
    vec![(s("k"), s("v"))]
}
pub fn ann2() -> Ann {
    vec![(s("pilota.name"), s("x y")), (s("api.get"), s("/a/:b"))]
}

pub fn types() -> Vec<TyA> {
    let mut v: Vec<TyA> = ["string", "byte", "bool", "binary", "i8", "i16", "i32", "i64", "double", "uuid"].iter().map(|b| base(b)).collect();
    v.push(path(&["Foo"]));
    v.push(path(&["base", "Bar"]));
    let inner = v.clone();
    for e in inner.iter().take(12) {
        v.push(t(Ty::List(Box::new(e.clone()))));
    }
    v.push(t(Ty::Set(Box::new(base("string")))));
    v.push(t(Ty::Map(Box::new(base("string")), Box::new(base("i32")))));
    v.push(t(Ty::Map(Box::new(path(&["K"])), Box::new(t(Ty::List(Box::new(base("i64"))))))));
    v.push(t(Ty::List(Box::new(t(Ty::Map(Box::new(base("i8")), Box::new(t(Ty::Set(Box::new(base("bool")))))))))));
    // annotated types
    v.push(TyA { ty: Ty::Base("string"), ann: ann1() });
    v.push(t(Ty::List(Box::new(TyA { ty: Ty::Base("i32"), ann: ann1() }))));
    v
}

pub fn const_values() -> Vec<(TyA, CV)> {
    let mut v: Vec<(TyA, CV)> = Vec::new();
    for i in [0i64, 1, -1, 255, 65536, i64::MAX, i64::MIN, -255, 1234567890123] {
        v.push((base("i64"), CV::Int(i)));
    }
    for d in ["1.5", "-1.5", "0.0", "1e5", "1E5", "1.5e3", "2.5e-3", ".5", "5.", "1e-9", "-2E-1", "+1.5", "-.5e-2"] {
        v.push((base("double"), CV::Double(s(d))));
    }
    for l in ["", "a", "hello world", "it\\'s", "say \\\"hi\\\"", "a\\nb", "back\\\\slash", "x=1, y=2; (z)", "/* not a comment */", "// neither", "# nor this"] {
        v.push((base("string"), CV::Str(s(l))));
    }
    v.push((base("bool"), CV::Bool(true)));
    v.push((base("bool"), CV::Bool(false)));
    v.push((path(&["E"]), CV::Path(vec![s("E"), s("A")])));
    v.push((base("i32"), CV::Path(vec![s("OTHER")])));
    v.push((path(&["E"]), CV::Path(vec![s("mod"), s("E"), s("A")])));
    let lst = |e: Vec<CV>| CV::List(e);
    v.push((t(Ty::List(Box::new(base("i32")))), lst(vec![])));
    v.push((t(Ty::List(Box::new(base("i32")))), lst(vec![CV::Int(1)])));
    v.push((t(Ty::List(Box::new(base("i32")))), lst(vec![CV::Int(1), CV::Int(-2)])));
    v.push((t(Ty::List(Box::new(base("string")))), lst(vec![CV::Str(s("a")), CV::Str(s("b"))])));
    v.push((t(Ty::List(Box::new(base("double")))), lst(vec![CV::Double(s("1.5")), CV::Double(s("1e-3"))])));
    v.push((t(Ty::List(Box::new(base("bool")))), lst(vec![CV::Bool(true), CV::Bool(false)])));
    v.push((t(Ty::List(Box::new(t(Ty::List(Box::new(base("i32"))))))), lst(vec![lst(vec![CV::Int(1)]), lst(vec![])])));
    v.push((path(&["S"]), CV::Map(vec![])));
    v.push((t(Ty::Map(Box::new(base("string")), Box::new(base("i32")))), CV::Map(vec![(CV::Str(s("k")), CV::Int(1))])));
    v.push((
        t(Ty::Map(Box::new(base("i32")), Box::new(t(Ty::List(Box::new(base("string"))))))),
        CV::Map(vec![(CV::Int(1), lst(vec![CV::Str(s("x"))])), (CV::Int(2), lst(vec![]))]),
    ));
    v.push((path(&["S"]), CV::Map(vec![(CV::Str(s("f")), CV::Map(vec![(CV::Str(s("g")), CV::Path(vec![s("E"), s("A")]))]))])));
    v.push((t(Ty::Map(Box::new(path(&["E"])), Box::new(base("bool")))), CV::Map(vec![(CV::Path(vec![s("E"), s("A")]), CV::Bool(true))])));
    v
}

fn fld(id: i32, attr: u8, ty: TyA, name: &str) -> Fld {
    Fld { id, attr, ty, name: s(name), default: None, ann: vec![] }
}

pub fn fields() -> Vec<Fld> {
    let mut v = Vec::new();
    for attr in 0..3u8 {
        v.push(fld(1, attr, base("i32"), "a"));
    }
    for id in [0, 2, 15, 16, 255, 32767, 2147483647] {
        v.push(fld(id, 0, base("string"), "b"));
    }
    for ty in types().into_iter().skip(10) {
        v.push(fld(3, 2, ty, "c"));
    }
    for (ty, cv) in const_values() {
        let mut f = fld(4, 2, ty, "d");
        f.default = Some(cv);
        v.push(f);
    }
    let mut f = fld(5, 1, base("i64"), "e");
    f.ann = ann1();
    v.push(f);
    let mut f = fld(6, 0, base("string"), "f");
    f.ann = ann2();
    f.default = Some(CV::Str(s("dflt")));
    v.push(f);
    v
}

/// documents with a construct label (part of failure signatures)
pub struct Labeled(pub Vec<(String, Vec<Item>)>);

impl Labeled {
    pub fn push(&mut self, items: Vec<Item>) {
        let label = label_of(&items);
        self.0.push((label, items));
    }
}

fn cv_label(c: &CV) -> String {
    match c {
        CV::Bool(b) => format!("bool:{}", b),
        CV::Path(p) => format!("path:{}", p.len()),
        CV::Str(x) => format!("str:{}", x.chars().filter(|c| !c.is_ascii_alphanumeric() && *c != ' ').collect::<String>()),
        CV::Int(i) => format!("int:{}", if *i == i64::MIN { "i64min".to_string() } else if *i == i64::MAX { "i64max".into() } else if *i < 0 { "neg".into() } else { "nonneg".into() }),
        CV::Double(d) => format!("double:{}", d),
        CV::List(e) => format!("list[{}]", e.first().map(cv_label).unwrap_or_default()),
        CV::Map(e) => format!("map{{{}}}", e.first().map(|x| cv_label(&x.1)).unwrap_or_default()),
    }
}

fn ty_label(t: &TyA) -> String {
    let a = if t.ann.is_empty() { "" } else { "+ann" };
    match &t.ty {
        Ty::Base(b) => format!("{}{}", b, a),
        Ty::List(e) => format!("list<{}>{}", ty_label(e), a),
        Ty::Set(e) => format!("set<{}>{}", ty_label(e), a),
        Ty::Map(k, v) => format!("map<{},{}>{}", ty_label(k), ty_label(v), a),
        Ty::Path(p) => format!("path{}{}", p.len(), a),
    }
}

fn label_of(items: &[Item]) -> String {
    if items.len() != 1 {
        return items.iter().map(|i| i.kind()).collect::<Vec<_>>().join("+");
    }
    match &items[0] {
        Item::Const { value, ann, .. } => format!("{}{}", cv_label(value), if ann.is_empty() { "" } else { "+ann" }),
        Item::Typedef { ty, ann, .. } => format!("{}{}", ty_label(ty), if ann.is_empty() { "" } else { "+ann" }),
        Item::Namespace { scope, path, ann } => format!("{}:{}{}", scope, path.len(), if ann.is_some() { "+ann" } else { "" }),
        Item::StructLike { fields, ann, .. } => {
            let f = fields
                .iter()
                .map(|f| format!("id{}:a{}:{}{}{}", if f.id > 32767 { "big".to_string() } else { f.id.to_string() }, f.attr, ty_label(&f.ty), f.default.as_ref().map(|d| format!("={}", cv_label(d))).unwrap_or_default(), if f.ann.is_empty() { "" } else { "+ann" }))
                .collect::<Vec<_>>()
                .join(";");
            format!("{}{}", f, if ann.is_empty() { "" } else { "+ann" })
        }
        Item::Enum { values, ann, .. } => format!("{}vals{}{}", values.len(), if values.iter().any(|v| !v.2.is_empty()) { "+valann" } else { "" }, if ann.is_empty() { "" } else { "+ann" }),
        Item::Service { extends, funcs, ann, .. } => format!(
            "{}funcs{}{}{}",
            funcs.len(),
            if extends.is_some() { "+extends" } else { "" },
            if funcs.iter().any(|f| !f.ann.is_empty()) { "+fann" } else { "" },
            if ann.is_empty() { "" } else { "+ann" }
        ),
        Item::Include(_) | Item::CppInclude(_) => String::new(),
    }
}

/// single-item documents of every item kind (width <= 2)
pub fn items(thorough: bool) -> Vec<(String, Vec<Item>)> {
    let mut out: Labeled = Labeled(Vec::new());
    out.push(vec![]);
    for p_ in ["base.thrift", "../x/y.thrift", ""] {
        out.push(vec![Item::Include(s(p_))]);
    }
    out.push(vec![Item::CppInclude(s("<vector>"))]);
    for scope in ["rs", "go", "*", "py", "py.twisted", "java", "js", "cpp", "rb"] {
        out.push(vec![Item::Namespace { scope: s(scope), path: vec![s("a")], ann: None }]);
        out.push(vec![Item::Namespace { scope: s(scope), path: vec![s("a"), s("b_c"), s("d1")], ann: None }]);
    }
    out.push(vec![Item::Namespace { scope: s("rs"), path: vec![s("x")], ann: Some(ann1()) }]);
    for ty in types() {
        out.push(vec![Item::Typedef { ty: ty.clone(), alias: s("Alias"), ann: vec![] }]);
    }
    out.push(vec![Item::Typedef { ty: base("i32"), alias: s("A"), ann: ann1() }]);
    out.push(vec![Item::Typedef { ty: base("i32"), alias: s("A"), ann: ann2() }]);
    for (ty, cv) in const_values() {
        out.push(vec![Item::Const { ty, name: s("C"), value: cv, ann: vec![] }]);
    }
    out.push(vec![Item::Const { ty: base("i32"), name: s("C"), value: CV::Int(1), ann: ann1() }]);
    // enums
    let ev = |n: &str, v: Option<i64>, a: Ann| (s(n), v, a);
    out.push(vec![Item::Enum { name: s("E"), values: vec![], ann: vec![] }]);
    out.push(vec![Item::Enum { name: s("E"), values: vec![ev("A", None, vec![])], ann: vec![] }]);
    out.push(vec![Item::Enum { name: s("E"), values: vec![ev("A", Some(0), vec![]), ev("B", Some(16), vec![])], ann: vec![] }]);
    out.push(vec![Item::Enum { name: s("E"), values: vec![ev("A", Some(-1), ann1()), ev("B", None, ann2())], ann: vec![] }]);
    out.push(vec![Item::Enum { name: s("E"), values: vec![ev("A", None, ann1())], ann: ann1() }]);
    // struct-likes
    let fs = fields();
    for kind in ["struct", "union", "exception"] {
        out.push(vec![Item::StructLike { kind, name: s("S"), fields: vec![], ann: vec![] }]);
        out.push(vec![Item::StructLike { kind, name: s("S"), fields: vec![fs[0].clone(), fs[4].clone()], ann: ann1() }]);
    }
    for f in &fs {
        out.push(vec![Item::StructLike { kind: "struct", name: s("S"), fields: vec![f.clone()], ann: vec![] }]);
    }
    if thorough {
        for a in fs.iter().step_by(3) {
            for b in fs.iter().step_by(5) {
                let mut b2 = b.clone();
                b2.id += 100;
                out.push(vec![Item::StructLike { kind: "struct", name: s("S"), fields: vec![a.clone(), b2], ann: vec![] }]);
            }
        }
    }
    // services
    let f0 = Func { oneway: false, ret: base("void"), name: s("ping"), args: vec![], throws: vec![], ann: vec![] };
    let f1 = Func { oneway: false, ret: base("i32"), name: s("add"), args: vec![fs[0].clone(), fld(2, 0, base("i32"), "y")], throws: vec![], ann: vec![] };
    let f2 = Func { oneway: true, ret: base("void"), name: s("fire"), args: vec![fld(1, 2, path(&["Req"]), "r")], throws: vec![], ann: ann1() };
    let f3 = Func {
        oneway: false,
        ret: path(&["base", "Resp"]),
        name: s("get"),
        args: vec![fld(1, 1, path(&["Req"]), "r")],
        throws: vec![fld(1, 0, path(&["Ex"]), "e"), fld(2, 0, path(&["base", "Ex2"]), "f")],
        ann: ann2(),
    };
    let f4 = Func { oneway: false, ret: t(Ty::List(Box::new(base("string")))), name: s("lst"), args: vec![fs[12].clone()], throws: vec![fld(1, 0, path(&["Ex"]), "e")], ann: vec![] };
    out.push(vec![Item::Service { name: s("Svc"), extends: None, funcs: vec![], ann: vec![] }]);
    out.push(vec![Item::Service { name: s("Svc"), extends: Some(vec![s("Base")]), funcs: vec![], ann: vec![] }]);
    out.push(vec![Item::Service { name: s("Svc"), extends: Some(vec![s("base"), s("Base")]), funcs: vec![f0.clone()], ann: ann1() }]);
    for f in [&f0, &f1, &f2, &f3, &f4] {
        out.push(vec![Item::Service { name: s("Svc"), extends: None, funcs: vec![f.clone()], ann: vec![] }]);
    }
    out.push(vec![Item::Service { name: s("Svc"), extends: None, funcs: vec![f1.clone(), f3.clone()], ann: vec![] }]);
    out.push(vec![Item::Service { name: s("Svc"), extends: None, funcs: vec![f2.clone(), f0.clone(), f4.clone()], ann: vec![] }]);
    // multi-item documents: every ordered pair of item kinds (one representative each)
    let reps: Vec<Item> = vec![
        Item::Include(s("a.thrift")),
        Item::Namespace { scope: s("rs"), path: vec![s("p"), s("q")], ann: None },
        Item::Typedef { ty: base("i32"), alias: s("T"), ann: vec![] },
        Item::Const { ty: base("i32"), name: s("C"), value: CV::Int(7), ann: vec![] },
        Item::Const { ty: base("string"), name: s("CS"), value: CV::Str(s("x")), ann: vec![] },
        Item::Enum { name: s("E"), values: vec![ev("A", Some(1), vec![])], ann: vec![] },
        Item::StructLike { kind: "struct", name: s("S"), fields: vec![fs[0].clone()], ann: vec![] },
        Item::StructLike { kind: "union", name: s("U"), fields: vec![fs[1].clone()], ann: ann1() },
        Item::Service { name: s("Svc"), extends: None, funcs: vec![f1.clone()], ann: vec![] },
    ];
    for a in &reps {
        for b in &reps {
            out.push(vec![a.clone(), b.clone()]);
        }
    }
    out.push(reps.clone());
    out.0
}

/// identifiers that merely begin with a keyword, in every identifier position
pub fn keyword_prefixed() -> Vec<(String, Vec<Item>)> {
    let mut out = Vec::new();
    let mut idents: Vec<String> = Vec::new();
    for kw in KEYWORDS.iter().chain(KEYWORDS2.iter()) {
        for suffix in ["X", "_1", "s", "Value"] {
            idents.push(format!("{}{}", kw, suffix));
        }
    }
    let f = |ty: TyA, name: &str| Fld { id: 1, attr: 0, ty, name: s(name), default: None, ann: vec![] };
    for id in &idents {
        let i = id.as_str();
        let mut push = |pos: &str, items: Vec<Item>| out.push((format!("{}:{}", pos, i), items));
        push("typedef-alias", vec![Item::Typedef { ty: base("i32"), alias: s(i), ann: vec![] }]);
        push("typedef-type", vec![Item::Typedef { ty: path(&[i]), alias: s("A"), ann: vec![] }]);
        push("const-name", vec![Item::Const { ty: base("i32"), name: s(i), value: CV::Int(1), ann: vec![] }]);
        push("const-type", vec![Item::Const { ty: path(&[i]), name: s("C"), value: CV::Int(1), ann: vec![] }]);
        push("const-value-path", vec![Item::Const { ty: base("i32"), name: s("C"), value: CV::Path(vec![s(i)]), ann: vec![] }]);
        push("const-value-path2", vec![Item::Const { ty: base("i32"), name: s("C"), value: CV::Path(vec![s(i), s("A")]), ann: vec![] }]);
        push("const-list-path", vec![Item::Const { ty: t(Ty::List(Box::new(base("i32")))), name: s("C"), value: CV::List(vec![CV::Path(vec![s(i)]), CV::Int(2)]), ann: vec![] }]);
        push("enum-name", vec![Item::Enum { name: s(i), values: vec![], ann: vec![] }]);
        push("enum-value", vec![Item::Enum { name: s("E"), values: vec![(s(i), Some(1), vec![]), (s("Z"), None, vec![])], ann: vec![] }]);
        push("struct-name", vec![Item::StructLike { kind: "struct", name: s(i), fields: vec![], ann: vec![] }]);
        push("field-name", vec![Item::StructLike { kind: "struct", name: s("S"), fields: vec![f(base("i32"), i)], ann: vec![] }]);
        push("field-type", vec![Item::StructLike { kind: "struct", name: s("S"), fields: vec![f(path(&[i]), "x")], ann: vec![] }]);
        push("field-type-opt", vec![Item::StructLike { kind: "struct", name: s("S"), fields: vec![Fld { attr: 2, ..f(path(&[i]), "x") }], ann: vec![] }]);
        push("field-type-list", vec![Item::StructLike { kind: "struct", name: s("S"), fields: vec![f(t(Ty::List(Box::new(path(&[i])))), "x")], ann: vec![] }]);
        push("field-default-path", vec![Item::StructLike { kind: "struct", name: s("S"), fields: vec![Fld { default: Some(CV::Path(vec![s(i)])), ..f(base("i32"), "x") }], ann: vec![] }]);
        push("service-name", vec![Item::Service { name: s(i), extends: None, funcs: vec![], ann: vec![] }]);
        push("service-extends", vec![Item::Service { name: s("S"), extends: Some(vec![s(i)]), funcs: vec![], ann: vec![] }]);
        let func = |ret: TyA, name: &str, arg: Fld| Func { oneway: false, ret, name: s(name), args: vec![arg], throws: vec![], ann: vec![] };
        push("function-name", vec![Item::Service { name: s("S"), extends: None, funcs: vec![func(base("void"), i, f(base("i32"), "a"))], ann: vec![] }]);
        push("function-ret", vec![Item::Service { name: s("S"), extends: None, funcs: vec![func(path(&[i]), "m", f(base("i32"), "a"))], ann: vec![] }]);
        push("arg-name", vec![Item::Service { name: s("S"), extends: None, funcs: vec![func(base("void"), "m", f(base("i32"), i))], ann: vec![] }]);
        push("arg-type", vec![Item::Service { name: s("S"), extends: None, funcs: vec![func(base("void"), "m", f(path(&[i]), "a"))], ann: vec![] }]);
        push("namespace-seg", vec![Item::Namespace { scope: s("rs"), path: vec![s(i), s("x")], ann: None }]);
        push("annotation-key", vec![Item::Typedef { ty: base("i32"), alias: s("A"), ann: vec![(s(i), s("v"))] }]);
    }
    out
}

//! Own descriptor AST, its conversion to pilota-thrift-parser's descriptor types (the expected
//! value) and a token printer whose every free choice is a choice point.

use pilota_thrift_parser as p;
use std::sync::Arc;

pub type Ann = Vec<(String, String)>;

#[derive(Clone, Debug)]
pub enum Ty {
    Base(&'static str),
    List(Box<TyA>),
    Set(Box<TyA>),
    Map(Box<TyA>, Box<TyA>),
    Path(Vec<String>),
}

#[derive(Clone, Debug)]
pub struct TyA {
    pub ty: Ty,
    pub ann: Ann,
}

pub fn t(ty: Ty) -> TyA {
    TyA { ty, ann: vec![] }
}
pub fn base(n: &'static str) -> TyA {
    t(Ty::Base(n))
}
pub fn path(segs: &[&str]) -> TyA {
    t(Ty::Path(segs.iter().map(|s| s.to_string()).collect()))
}

#[derive(Clone, Debug)]
pub enum CV {
    Bool(bool),
    Path(Vec<String>),
    Str(String),
    Int(i64),
    Double(String),
    List(Vec<CV>),
    Map(Vec<(CV, CV)>),
}

#[derive(Clone, Debug)]
pub struct Fld {
    pub id: i32,
    /// 0 default, 1 required, 2 optional
    pub attr: u8,
    pub ty: TyA,
    pub name: String,
    pub default: Option<CV>,
    pub ann: Ann,
}

#[derive(Clone, Debug)]
pub struct Func {
    pub oneway: bool,
    pub ret: TyA,
    pub name: String,
    pub args: Vec<Fld>,
    pub throws: Vec<Fld>,
    pub ann: Ann,
}

#[derive(Clone, Debug)]
pub enum Item {
    Include(String),
    CppInclude(String),
    Namespace { scope: String, path: Vec<String>, ann: Option<Ann> },
    Typedef { ty: TyA, alias: String, ann: Ann },
    Const { ty: TyA, name: String, value: CV, ann: Ann },
    Enum { name: String, values: Vec<(String, Option<i64>, Ann)>, ann: Ann },
    StructLike { kind: &'static str, name: String, fields: Vec<Fld>, ann: Ann },
    Service { name: String, extends: Option<Vec<String>>, funcs: Vec<Func>, ann: Ann },
}

impl Item {
    pub fn kind(&self) -> &'static str {
        match self {
            Item::Include(_) => "include",
            Item::CppInclude(_) => "cpp_include",
            Item::Namespace { .. } => "namespace",
            Item::Typedef { .. } => "typedef",
            Item::Const { .. } => "const",
            Item::Enum { .. } => "enum",
            Item::StructLike { kind, .. } => kind,
            Item::Service { .. } => "service",
        }
    }
}

// ------------------------------------------------------------------------------------------
// conversion to the parser's descriptor types

fn p_ann(a: &Ann) -> p::Annotations {
    p::Annotations(a.iter().map(|(k, v)| p::Annotation { key: k.clone(), value: p::Literal(v.clone()) }).collect())
}
fn p_path(s: &[String]) -> p::Path {
    p::Path { segments: Arc::from(s.iter().map(|x| p::Ident(Arc::from(x.as_str()))).collect::<Vec<_>>()) }
}
fn p_ident(s: &str) -> p::Ident {
    p::Ident(Arc::from(s))
}
fn p_ty(t: &TyA) -> p::Type {
    let ty = match &t.ty {
        Ty::Base(b) => match *b {
            "string" => p::Ty::String,
            "void" => p::Ty::Void,
            "byte" => p::Ty::Byte,
            "bool" => p::Ty::Bool,
            "binary" => p::Ty::Binary,
            "i8" => p::Ty::I8,
            "i16" => p::Ty::I16,
            "i32" => p::Ty::I32,
            "i64" => p::Ty::I64,
            "double" => p::Ty::Double,
            "uuid" => p::Ty::Uuid,
            x => panic!("MACHINERY: base {}", x),
        },
        Ty::List(e) => p::Ty::List { value: Arc::new(p_ty(e)), cpp_type: None },
        Ty::Set(e) => p::Ty::Set { value: Arc::new(p_ty(e)), cpp_type: None },
        Ty::Map(k, v) => p::Ty::Map { key: Arc::new(p_ty(k)), value: Arc::new(p_ty(v)), cpp_type: None },
        Ty::Path(s) => p::Ty::Path(p_path(s)),
    };
    p::Type(ty, p_ann(&t.ann))
}
fn p_cv(c: &CV) -> p::ConstValue {
    match c {
        CV::Bool(b) => p::ConstValue::Bool(*b),
        CV::Path(s) => p::ConstValue::Path(p_path(s)),
        CV::Str(s) => p::ConstValue::String(p::Literal(s.clone())),
        CV::Int(i) => p::ConstValue::Int(p::IntConstant(*i)),
        CV::Double(s) => p::ConstValue::Double(p::DoubleConstant(Arc::from(s.as_str()))),
        CV::List(e) => p::ConstValue::List(e.iter().map(p_cv).collect()),
        CV::Map(e) => p::ConstValue::Map(e.iter().map(|(a, b)| (p_cv(a), p_cv(b))).collect()),
    }
}
fn p_fld(f: &Fld, arg: bool) -> p::Field {
    p::Field {
        id: f.id,
        name: p_ident(&f.name),
        attribute: match f.attr {
            1 => p::Attribute::Required,
            2 => p::Attribute::Optional,
            // the parser turns default-requiredness ARGUMENTS into required ones
            _ => {
                if arg {
                    p::Attribute::Required
                } else {
                    p::Attribute::Default
                }
            }
        },
        ty: p_ty(&f.ty),
        default: f.default.as_ref().map(p_cv),
        annotations: p_ann(&f.ann),
    }
}

pub fn to_pilota(it: &Item) -> p::Item {
    match it {
        Item::Include(s) => p::Item::Include(p::Include { path: p::Literal(s.clone()) }),
        Item::CppInclude(s) => p::Item::CppInclude(p::CppInclude(p::Literal(s.clone()))),
        Item::Namespace { scope, path, ann } => p::Item::Namespace(p::Namespace {
            scope: p::Scope(scope.clone()),
            name: p_path(path),
            annotations: ann.as_ref().map(p_ann),
        }),
        Item::Typedef { ty, alias, ann } => p::Item::Typedef(p::Typedef { r#type: p_ty(ty), alias: p_ident(alias), annotations: p_ann(ann) }),
        Item::Const { ty, name, value, ann } => {
            p::Item::Constant(p::Constant { name: p_ident(name), r#type: p_ty(ty), value: p_cv(value), annotations: p_ann(ann) })
        }
        Item::Enum { name, values, ann } => p::Item::Enum(p::Enum {
            name: p_ident(name),
            values: values
                .iter()
                .map(|(n, v, a)| p::EnumValue { name: p_ident(n), value: v.map(p::IntConstant), annotations: p_ann(a) })
                .collect(),
            annotations: p_ann(ann),
        }),
        Item::StructLike { kind, name, fields, ann } => {
            let sl = p::StructLike { name: p_ident(name), fields: fields.iter().map(|f| p_fld(f, false)).collect(), annotations: p_ann(ann) };
            match *kind {
                "struct" => p::Item::Struct(p::Struct(sl)),
                "union" => p::Item::Union(p::Union(sl)),
                _ => p::Item::Exception(p::Exception(sl)),
            }
        }
        Item::Service { name, extends, funcs, ann } => p::Item::Service(p::Service {
            name: p_ident(name),
            extends: extends.as_ref().map(|e| p_path(e)),
            functions: funcs
                .iter()
                .map(|f| p::Function {
                    name: p_ident(&f.name),
                    oneway: f.oneway,
                    result_type: p_ty(&f.ret),
                    arguments: f.args.iter().map(|a| p_fld(a, true)).collect(),
                    throws: f.throws.iter().map(|a| p_fld(a, false)).collect(),
                    annotations: p_ann(&f.ann),
                })
                .collect(),
            annotations: p_ann(ann),
        }),
    }
}

// ------------------------------------------------------------------------------------------
// tokens

#[derive(Clone, Debug)]
pub enum Tok {
    /// word-like (identifier, keyword, double literal text, field id)
    W(String),
    /// punctuation
    P(&'static str),
    /// string literal (raw content; quote style is a choice)
    L(String),
    /// integer literal (decimal / hexadecimal is a choice)
    I(i64),
    /// optional list separator (`,` `;` or nothing); the label names the production
    Sep(&'static str),
}

pub fn print_items(items: &[Item]) -> Vec<Tok> {
    let mut o = Vec::new();
    for it in items {
        print_item(it, &mut o);
    }
    o
}

fn w(o: &mut Vec<Tok>, s: &str) {
    o.push(Tok::W(s.to_string()));
}

fn print_ann(a: &Ann, o: &mut Vec<Tok>) {
    if a.is_empty() {
        return;
    }
    o.push(Tok::P("("));
    for (k, v) in a {
        w(o, k);
        o.push(Tok::P("="));
        o.push(Tok::L(v.clone()));
        o.push(Tok::Sep("annotation"));
    }
    o.push(Tok::P(")"));
}

fn print_path(s: &[String], o: &mut Vec<Tok>) {
    // a dotted path is ONE identifier token in Thrift IDL: no layout freedom inside it
    w(o, &s.join("."));
}

fn print_ty(t: &TyA, o: &mut Vec<Tok>) {
    match &t.ty {
        Ty::Base(b) => w(o, b),
        Ty::List(e) => {
            w(o, "list");
            o.push(Tok::P("<"));
            print_ty(e, o);
            o.push(Tok::P(">"));
        }
        Ty::Set(e) => {
            w(o, "set");
            o.push(Tok::P("<"));
            print_ty(e, o);
            o.push(Tok::P(">"));
        }
        Ty::Map(k, v) => {
            w(o, "map");
            o.push(Tok::P("<"));
            print_ty(k, o);
            o.push(Tok::P(","));
            print_ty(v, o);
            o.push(Tok::P(">"));
        }
        Ty::Path(s) => print_path(s, o),
    }
    print_ann(&t.ann, o);
}

fn print_cv(c: &CV, o: &mut Vec<Tok>) {
    match c {
        CV::Bool(b) => w(o, if *b { "true" } else { "false" }),
        CV::Path(s) => print_path(s, o),
        CV::Str(s) => o.push(Tok::L(s.clone())),
        CV::Int(i) => o.push(Tok::I(*i)),
        CV::Double(s) => w(o, s),
        CV::List(e) => {
            o.push(Tok::P("["));
            for x in e {
                print_cv(x, o);
                o.push(Tok::Sep("const-list"));
            }
            o.push(Tok::P("]"));
        }
        CV::Map(e) => {
            o.push(Tok::P("{"));
            for (k, v) in e {
                print_cv(k, o);
                o.push(Tok::P(":"));
                print_cv(v, o);
                o.push(Tok::Sep("const-map"));
            }
            o.push(Tok::P("}"));
        }
    }
}

fn print_fld(f: &Fld, label: &'static str, o: &mut Vec<Tok>) {
    w(o, &f.id.to_string());
    o.push(Tok::P(":"));
    match f.attr {
        1 => w(o, "required"),
        2 => w(o, "optional"),
        _ => {}
    }
    print_ty(&f.ty, o);
    w(o, &f.name);
    if let Some(d) = &f.default {
        o.push(Tok::P("="));
        print_cv(d, o);
    }
    print_ann(&f.ann, o);
    o.push(Tok::Sep(label));
}

pub fn print_item(it: &Item, o: &mut Vec<Tok>) {
    match it {
        Item::Include(s) => {
            w(o, "include");
            o.push(Tok::L(s.clone()));
            o.push(Tok::Sep("include"));
        }
        Item::CppInclude(s) => {
            w(o, "cpp_include");
            o.push(Tok::L(s.clone()));
            o.push(Tok::Sep("include"));
        }
        Item::Namespace { scope, path, ann } => {
            w(o, "namespace");
            w(o, scope);
            print_path(path, o);
            if let Some(a) = ann {
                print_ann(a, o);
            }
            o.push(Tok::Sep("namespace"));
        }
        Item::Typedef { ty, alias, ann } => {
            w(o, "typedef");
            print_ty(ty, o);
            w(o, alias);
            print_ann(ann, o);
            o.push(Tok::Sep("typedef"));
        }
        Item::Const { ty, name, value, ann } => {
            w(o, "const");
            print_ty(ty, o);
            w(o, name);
            o.push(Tok::P("="));
            print_cv(value, o);
            print_ann(ann, o);
            o.push(Tok::Sep("const"));
        }
        Item::Enum { name, values, ann } => {
            w(o, "enum");
            w(o, name);
            o.push(Tok::P("{"));
            for (n, v, a) in values {
                w(o, n);
                if let Some(v) = v {
                    o.push(Tok::P("="));
                    o.push(Tok::I(*v));
                }
                print_ann(a, o);
                o.push(Tok::Sep("enum-value"));
            }
            o.push(Tok::P("}"));
            print_ann(ann, o);
        }
        Item::StructLike { kind, name, fields, ann } => {
            w(o, kind);
            w(o, name);
            o.push(Tok::P("{"));
            for f in fields {
                print_fld(f, "field", o);
            }
            o.push(Tok::P("}"));
            print_ann(ann, o);
            o.push(Tok::Sep("struct"));
        }
        Item::Service { name, extends, funcs, ann } => {
            w(o, "service");
            w(o, name);
            if let Some(e) = extends {
                w(o, "extends");
                print_path(e, o);
            }
            o.push(Tok::P("{"));
            for f in funcs {
                if f.oneway {
                    w(o, "oneway");
                }
                print_ty(&f.ret, o);
                w(o, &f.name);
                o.push(Tok::P("("));
                for a in &f.args {
                    print_fld(a, "argument", o);
                }
                o.push(Tok::P(")"));
                if !f.throws.is_empty() {
                    w(o, "throws");
                    o.push(Tok::P("("));
                    for a in &f.throws {
                        print_fld(a, "throws", o);
                    }
                    o.push(Tok::P(")"));
                }
                print_ann(&f.ann, o);
                o.push(Tok::Sep("function"));
            }
            o.push(Tok::P("}"));
            print_ann(ann, o);
            o.push(Tok::Sep("service"));
        }
    }
}

// ------------------------------------------------------------------------------------------
// layout: every free choice is a `choose(n, label)` point; choice 0 is the default

pub const SEPS: [&str; 3] = [",", ";", ""];

/// alternatives to the default blank; index 0 of every gap choice is the conventional layout
/// (one space, or nothing next to brackets and before separators)
pub const GAP_ALTS: [&str; 6] = [" ", "\n", "\t \r\n", "/*c*/", " // c\n", " # c\n"];

fn wordlike(c: char) -> bool {
    c.is_ascii_alphanumeric() || c == '_' || c == '.' || c == '-' || c == '+'
}

fn class(tk: &Tok) -> String {
    match tk {
        Tok::W(_) => "w".into(),
        Tok::P(p) => p.to_string(),
        Tok::L(_) => "lit".into(),
        Tok::I(_) => "int".into(),
        Tok::Sep(l) => format!("sep@{}", l),
    }
}

/// `choose(arity, label) -> index`
pub fn layout(toks: &[Tok], choose: &mut dyn FnMut(usize) -> usize, devs: &mut Vec<String>) -> String {
    let mut out = String::new();
    let mut prev_class = "^".to_string();
    // rendered tokens in order
    for tk in toks.iter() {
        let text: String = match tk {
            Tok::W(s) => s.clone(),
            Tok::P(p) => p.to_string(),
            Tok::L(s) => {
                let q = choose(2);
                if q != 0 {
                    devs.push("quote:double".into());
                }
                if q == 0 {
                    format!("'{}'", s)
                } else {
                    format!("\"{}\"", s)
                }
            }
            Tok::I(i) => {
                let f = choose(2);
                if f != 0 {
                    devs.push("int:hex".into());
                }
                if f == 0 {
                    i.to_string()
                } else if *i >= 0 {
                    format!("0x{:x}", i)
                } else if *i == i64::MIN {
                    i.to_string()
                } else {
                    format!("-0x{:x}", -i)
                }
            }
            Tok::Sep(l) => {
                let s = choose(3);
                if s != 0 {
                    devs.push(format!("sep@{}:{}", l, if s == 1 { "semicolon" } else { "none" }));
                }
                if SEPS[s].is_empty() {
                    continue;
                }
                SEPS[s].to_string()
            }
        };
        let cls = class(tk);
        let mandatory = match (out.chars().last(), text.chars().next()) {
            (Some(a), Some(b)) => wordlike(a) && wordlike(b),
            _ => false,
        };
        let label = format!("gap:{}~{}", prev_class, cls);
        let gap = gap_choice(mandatory, out.is_empty(), &prev_class, &cls, label, choose, devs);
        out.push_str(&gap);
        out.push_str(&text);
        prev_class = cls;
    }
    let tail = gap_choice(false, false, &prev_class, "$", format!("gap:{}~$", prev_class), choose, devs);
    out.push_str(&tail);
    out
}

/// One blank. Choice 0 = conventional layout. Further choices: the other of {nothing, one space}
/// when both are legal, then newline, tab+CRLF and the three comment styles.
/// Labels get a suffix naming the alternative kind (tight / space / comment).
fn gap_choice(mandatory: bool, at_start: bool, prev: &str, next: &str, label: String, choose: &mut dyn FnMut(usize) -> usize, devs: &mut Vec<String>) -> String {
    let tight_default = at_start
        || next == "$"
        || matches!(next, "," | ";" | ")" | ">" | "]" | ":")
        || next.starts_with("sep@")
        || matches!(prev, "(" | "<" | "[" | "^");
    let mut opts: Vec<(&str, &str)> = Vec::new();
    if tight_default && !mandatory {
        opts.push(("", "default"));
        opts.push((" ", "space"));
    } else {
        opts.push((" ", "default"));
        if !mandatory {
            opts.push(("", "tight"));
        }
    }
    opts.push(("\n", "space"));
    opts.push(("\t \r\n", "space"));
    opts.push(("/*c*/", "comment"));
    opts.push((" // c\n", "comment"));
    opts.push((" # c\n", "comment"));
    let n = opts.len();
    // the alternative kind becomes part of the label so that failures name it
    let idx = choose(n);
    if idx != 0 {
        devs.push(format!("{}:{}", label, opts[idx].1));
    }
    opts[idx].0.to_string()
}


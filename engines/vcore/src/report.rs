//! Per-shard result collection, sharding, progress file, panic capture, CLI argument parsing.

use serde_json::{json, Value};
use std::collections::{BTreeMap, BTreeSet};
use std::sync::Mutex;

#[derive(Clone, Debug)]
pub struct Args {
    pub check: String,
    pub tier: String,
    pub shard: usize,
    pub nshards: usize,
    pub out: String,
    pub resume_after: Option<u64>,
    pub only: Option<u64>,
    pub skip: Vec<u64>,
    pub progress: Option<String>,
    pub seed: u64,
    pub replay: Option<String>,
    pub extra: BTreeMap<String, String>,
}

impl Args {
    pub fn parse() -> Args {
        let mut a = Args {
            check: String::new(),
            tier: "quick".into(),
            shard: 0,
            nshards: 1,
            out: String::new(),
            resume_after: None,
            only: None,
            skip: Vec::new(),
            progress: None,
            seed: 0,
            replay: None,
            extra: BTreeMap::new(),
        };
        let mut it = std::env::args().skip(1);
        while let Some(x) = it.next() {
            match x.as_str() {
                "--tier" => a.tier = it.next().unwrap(),
                "--shard" => {
                    let s = it.next().unwrap();
                    let (k, n) = s.split_once('/').unwrap();
                    a.shard = k.parse().unwrap();
                    a.nshards = n.parse().unwrap();
                }
                "--out" => a.out = it.next().unwrap(),
                "--resume-after" => a.resume_after = Some(it.next().unwrap().parse().unwrap()),
                "--only" => a.only = Some(it.next().unwrap().parse().unwrap()),
                "--skip" => a.skip = it.next().unwrap().split(',').filter(|x| !x.is_empty()).map(|x| x.parse().unwrap()).collect(),
                "--progress" => a.progress = Some(it.next().unwrap()),
                "--seed" => a.seed = it.next().unwrap().parse().unwrap_or(0),
                "--replay" => a.replay = Some(it.next().unwrap()),
                s if s.starts_with("--") => {
                    let v = it.next().unwrap_or_default();
                    a.extra.insert(s[2..].to_string(), v);
                }
                s => {
                    if a.check.is_empty() {
                        a.check = s.to_string()
                    }
                }
            }
        }
        a
    }
    pub fn thorough(&self) -> bool {
        self.tier == "thorough"
    }
}

pub struct FailureGroup {
    pub count: u64,
    pub first_index: u64,
    pub case: Value,
    pub detail: String,
}

pub struct Collector {
    pub prop: String,
    pub shard: usize,
    pub nshards: usize,
    pub resume_after: Option<u64>,
    pub only: Option<u64>,
    pub skip: Vec<u64>,
    pub out_path: String,
    last_checkpoint: std::time::Instant,
    /// global case counter (every shard walks the whole enumeration)
    pub index: u64,
    pub evaluations: u64,
    pub nontrivial: u64,
    pub states: BTreeSet<u64>,
    pub transitions: BTreeSet<u64>,
    pub outcomes: BTreeMap<String, u64>,
    pub samples: Vec<Value>,
    pub failures: BTreeMap<String, FailureGroup>,
    pub caps: Vec<String>,
    pub spaces: BTreeMap<String, u64>,
    pub counters: BTreeMap<String, u64>,
    pub notes: Vec<String>,
    /// number of executions slower than the per-case limit; after 8 the shard stops enumerating
    /// (reported as a cap) so that a hang-like defect yields a verdict instead of a timeout
    pub slow: u32,
    /// slow executions per kind of case (see `slow_kind`)
    pub slow_kinds: BTreeMap<String, u32>,
    progress: Option<*mut u64>,
    start: std::time::Instant,
}

/// 0 between cases; otherwise a beat counter that every claimed case and every execution
/// (`catch`) advances. The watchdog counts its own 250 ms ticks during which the counter stood
/// still - no clock is read, so a stepped wall clock or a paused VM cannot trip it.
static BUSY_SINCE_MS: std::sync::atomic::AtomicU64 = std::sync::atomic::AtomicU64::new(0);
static BEAT: std::sync::atomic::AtomicU64 = std::sync::atomic::AtomicU64::new(1);

fn now_ms() -> u64 {
    BEAT.fetch_add(1, std::sync::atomic::Ordering::Relaxed) + 1
}

/// exit status of a worker that its own watchdog stopped because one case did not finish
pub const HANG_EXIT: i32 = 86;

/// A case that does not come back (an endless or astronomically long loop in the code under test)
/// cannot be interrupted from inside; the watchdog ends the worker with a distinctive status and
/// the driver records a hang for the case announced in the progress file, then carries on.
fn spawn_watchdog(limit_s: u64) {
    // The thread's start-up allocates and frees; allocation accounting (C09, C10, C19) must not see
    // that, so the caller waits until the thread is inside its loop, which never allocates.
    static READY: std::sync::atomic::AtomicBool = std::sync::atomic::AtomicBool::new(false);
    let (mut last_seen, mut stale_ticks) = (0u64, 0u64);
    std::thread::spawn(move || loop {
        READY.store(true, std::sync::atomic::Ordering::SeqCst);
        std::thread::sleep(std::time::Duration::from_millis(250));
        let since = BUSY_SINCE_MS.load(std::sync::atomic::Ordering::SeqCst);
        if since != 0 && since == last_seen {
            stale_ticks += 1;
        } else {
            stale_ticks = 0;
            last_seen = since;
        }
        if stale_ticks * 250 > limit_s * 1000 {
            eprintln!("WATCHDOG: the announced case has been running for more than {} s", limit_s);
            std::process::exit(HANG_EXIT);
        }
    });
    while !READY.load(std::sync::atomic::Ordering::SeqCst) {
        std::thread::yield_now();
    }
    // one more scheduling quantum: the first sleep() call itself must have been entered
    std::thread::sleep(std::time::Duration::from_millis(20));
}

impl Collector {
    pub fn new(prop: &str, a: &Args) -> Collector {
        if a.progress.is_some() {
            let limit = std::env::var("VERIF_CASE_TIMEOUT_S").ok().and_then(|x| x.parse().ok()).unwrap_or(if a.thorough() { 120 } else { 45 });
            spawn_watchdog(limit);
        }
        let progress = a.progress.as_ref().map(|p| unsafe {
            let c = std::ffi::CString::new(p.as_str()).unwrap();
            let fd = libc::open(c.as_ptr(), libc::O_RDWR | libc::O_CREAT, 0o644);
            assert!(fd >= 0, "cannot open progress file");
            libc::ftruncate(fd, 16);
            let m = libc::mmap(
                std::ptr::null_mut(),
                16,
                libc::PROT_READ | libc::PROT_WRITE,
                libc::MAP_SHARED,
                fd,
                0,
            );
            assert!(m != libc::MAP_FAILED);
            let p = m as *mut u64;
            *p = u64::MAX;
            *p.add(1) = 0;
            p
        });
        Collector {
            prop: prop.to_string(),
            shard: a.shard,
            nshards: a.nshards,
            resume_after: a.resume_after,
            only: a.only,
            skip: a.skip.clone(),
            out_path: a.out.clone(),
            last_checkpoint: std::time::Instant::now(),
            index: 0,
            evaluations: 0,
            nontrivial: 0,
            states: BTreeSet::new(),
            transitions: BTreeSet::new(),
            outcomes: BTreeMap::new(),
            samples: Vec::new(),
            failures: BTreeMap::new(),
            caps: Vec::new(),
            spaces: BTreeMap::new(),
            counters: BTreeMap::new(),
            notes: Vec::new(),
            slow: 0,
            slow_kinds: BTreeMap::new(),
            progress,
            start: std::time::Instant::now(),
        }
    }

    /// Advance the global case counter; true if this shard owns the case (and it is not skipped
    /// by --resume-after). Publishes the index in the progress file before the case runs.
    pub fn next_case(&mut self, space: &str) -> bool {
        BUSY_SINCE_MS.store(0, std::sync::atomic::Ordering::SeqCst);
        let i = self.index;
        self.index += 1;
        if self.slow >= 8 {
            if self.slow == 8 {
                self.slow = 9;
                let _ = std::fs::write(format!("{}.slowstop", self.out_path), b"1");
                self.caps.push("shard stopped enumerating after 8 slow executions".into());
            }
            return false;
        }
        if let Some(o) = self.only {
            if i != o {
                return false;
            }
        } else if (i as usize) % self.nshards != self.shard {
            return false;
        }
        if let Some(r) = self.resume_after {
            if i <= r {
                return false;
            }
        }
        if self.skip.contains(&i) {
            return false;
        }
        // checkpoint about once per second: a worker death then loses at most that much work
        if self.progress.is_some() && i % 64 == 0 && self.last_checkpoint.elapsed().as_millis() > 1000 {
            self.last_checkpoint = std::time::Instant::now();
            let p = format!("{}.ckpt", self.out_path);
            self.write(&p, Some(i.saturating_sub(1)));
        }
        *self.spaces.entry(space.to_string()).or_insert(0) += 1;
        if let Some(p) = self.progress {
            unsafe {
                std::ptr::write_volatile(p, i);
                std::ptr::write_volatile(p.add(1), 0);
            }
            BUSY_SINCE_MS.store(now_ms().max(1), std::sync::atomic::Ordering::SeqCst);
        }
        true
    }
    /// Tags the announced case (published next to its index): if the worker dies on it the
    /// driver reports the death under this tag. 1 = "arg-type+retention".
    pub fn tag_case(&mut self, tag: u64) {
        if let Some(p) = self.progress {
            unsafe { std::ptr::write_volatile(p.add(1), tag) };
        }
    }
    /// Records a slow execution of a case of kind `kind`. After 8 of one kind, `skip_kind` turns
    /// true for that kind only (reported as a cap): one slow construct does not stop the rest of
    /// the enumeration.
    pub fn slow_kind(&mut self, kind: &str) {
        let n = self.slow_kinds.entry(kind.to_string()).or_insert(0);
        *n += 1;
        if *n == 8 {
            self.caps.push(format!("cases of kind '{}' skipped in this shard after 8 slow executions", kind));
        }
    }
    pub fn skip_kind(&self, kind: &str) -> bool {
        self.slow_kinds.get(kind).copied().unwrap_or(0) >= 8
    }
    pub fn cur_index(&self) -> u64 {
        self.index.saturating_sub(1)
    }
    pub fn count(&mut self, k: &str, n: u64) {
        *self.counters.entry(k.to_string()).or_insert(0) += n;
    }
    pub fn outcome(&mut self, k: &str) {
        *self.outcomes.entry(k.to_string()).or_insert(0) += 1;
    }
    pub fn sample(&mut self, v: Value) {
        if self.samples.len() < 12 {
            self.samples.push(v);
        }
    }
    pub fn fail(&mut self, sig: String, case: Value, detail: String) {
        let idx = self.cur_index();
        let g = self.failures.entry(sig).or_insert(FailureGroup {
            count: 0,
            first_index: idx,
            case,
            detail,
        });
        g.count += 1;
    }
    pub fn finish(&self, out: &str) {
        BUSY_SINCE_MS.store(0, std::sync::atomic::Ordering::SeqCst);
        self.write(out, None);
    }
    /// `upto`: every owned case with index <= upto has been executed (checkpoint)
    fn write(&self, out: &str, upto: Option<u64>) {
        let failures: Vec<Value> = self
            .failures
            .iter()
            .map(|(sig, g)| {
                json!({"sig": sig, "count": g.count, "first_index": g.first_index, "case": g.case, "detail": g.detail})
            })
            .collect();
        let v = json!({
            "prop": self.prop,
            "checkpoint_upto": upto,
            "shard": self.shard,
            "nshards": self.nshards,
            "cases_enumerated": self.index,
            "evaluations": self.evaluations,
            "nontrivial": self.nontrivial,
            "states": self.states.iter().collect::<Vec<_>>(),
            "transitions": self.transitions.iter().collect::<Vec<_>>(),
            "outcomes": self.outcomes,
            "samples": self.samples,
            "failures": failures,
            "caps": self.caps,
            "spaces": self.spaces,
            "counters": self.counters,
            "notes": self.notes,
            "wall_s": self.start.elapsed().as_secs_f64(),
        });
        let tmp = format!("{}.tmp", out);
        std::fs::write(&tmp, serde_json::to_vec(&v).unwrap()).expect("write shard result");
        std::fs::rename(&tmp, out).expect("rename shard result");
    }
}

// ------------------------------------------------------------------------------------------
// panic capture

static LAST_PANIC: Mutex<Option<String>> = Mutex::new(None);

pub fn install_silent_panic_hook() {
    std::panic::set_hook(Box::new(|info| {
        let loc = info
            .location()
            .map(|l| format!("{}:{}", trim_path(l.file()), l.line()))
            .unwrap_or_else(|| "?".into());
        let msg = if let Some(s) = info.payload().downcast_ref::<&str>() {
            s.to_string()
        } else if let Some(s) = info.payload().downcast_ref::<String>() {
            s.clone()
        } else {
            "?".into()
        };
        if msg.starts_with("MACHINERY") {
            eprintln!("{} at {}", msg, loc);
            std::process::exit(2);
        }
        *LAST_PANIC.lock().unwrap() = Some(format!("{}|{}", loc, msg));
    }));
}

fn trim_path(p: &str) -> String {
    // make panic locations independent of where the registry / repo lives
    if let Some(i) = p.find("/work/gen/") {
        // generated code: name the generated file only
        return format!("generated:{}", p[i..].rsplit('/').next().unwrap_or(""));
    }
    if let Some(i) = p.find("/repo/") {
        return p[i + 6..].to_string();
    }
    if let Some(i) = p.find("registry/src/") {
        let rest = &p[i + 13..];
        if let Some(j) = rest.find('/') {
            return rest[j + 1..].to_string();
        }
    }
    if let Some(i) = p.find("/library/") {
        return p[i + 1..].to_string();
    }
    p.to_string()
}

pub enum Caught<R> {
    Ok(R),
    /// (location, message)
    Panic(String, String),
}

pub fn catch<R>(f: impl FnOnce() -> R) -> Caught<R> {
    // every execution of the code under test passes through here: a case made of many executions
    // keeps the watchdog quiet, one execution that does not return trips it
    if BUSY_SINCE_MS.load(std::sync::atomic::Ordering::Relaxed) != 0 {
        BUSY_SINCE_MS.store(now_ms().max(1), std::sync::atomic::Ordering::Relaxed);
    }
    match std::panic::catch_unwind(std::panic::AssertUnwindSafe(f)) {
        Ok(r) => Caught::Ok(r),
        Err(_) => {
            let s = LAST_PANIC.lock().unwrap().take().unwrap_or_else(|| "?|?".into());
            let (loc, msg) = s.split_once('|').unwrap_or(("?", "?"));
            Caught::Panic(loc.to_string(), msg.to_string())
        }
    }
}

/// stable panic signature: file (no line number: lines move with unrelated edits) + message class
pub fn panic_sig(loc: &str, msg: &str) -> String {
    let file = loc.rsplit_once(':').map(|x| x.0).unwrap_or(loc);
    format!("panic@{}:{}", file, panic_class(msg))
}

/// classify a panic message into a short stable class (numbers removed)
pub fn panic_class(msg: &str) -> String {
    let mut s: String = msg.chars().map(|c| if c.is_ascii_digit() { '#' } else { c }).collect();
    while s.contains("##") {
        s = s.replace("##", "#");
    }
    if s.len() > 48 {
        let mut n = 48;
        while !s.is_char_boundary(n) {
            n -= 1;
        }
        s.truncate(n);
    }
    s
}

//! Reference protobuf wire codec, written from the protobuf encoding guide; schema-directed,
//! with the merge semantics of the specification (last-wins, append, map insert-replace, oneof
//! replace, field-wise message merge, unknown fields skipped). Shares no code with pilota.

use serde::{Deserialize, Serialize};
use std::collections::HashMap;

#[derive(Deserialize, Serialize, Debug, Clone, PartialEq)]
pub struct PField {
    pub num: u32,
    pub name: String,
    /// singular | optional | required | repeated | map | oneof
    pub label: String,
    /// scalar type name, "message" or "enum"
    pub ty: String,
    #[serde(default)]
    pub tyname: Option<String>,
    /// map key scalar type (label == map)
    #[serde(default)]
    pub key: Option<String>,
    #[serde(default)]
    pub oneof: Option<String>,
}

#[derive(Deserialize, Serialize, Debug, Clone, PartialEq)]
pub struct PMessage {
    /// name as used for matching the generated Rust type (simple name)
    pub name: String,
    /// fully qualified proto name (for references)
    pub fq: String,
    pub fields: Vec<PField>,
    #[serde(default)]
    pub enums: Vec<String>,
}

#[derive(Deserialize, Serialize, Debug, Clone)]
pub struct PDoc {
    pub name: String,
    pub syntax: String,
    pub messages: Vec<PMessage>,
    /// enum fq name -> declared numbers
    pub enums: HashMap<String, Vec<i32>>,
}

impl PDoc {
    pub fn msg(&self, fq: &str) -> &PMessage {
        self.messages.iter().find(|m| m.fq == fq).unwrap_or_else(|| panic!("MACHINERY: unknown message {}", fq))
    }
}

#[derive(Clone, Debug, PartialEq, Serialize, Deserialize)]
pub enum PS {
    /// int32 int64 sint32 sint64 sfixed32 sfixed64 enum
    I(i64),
    /// uint32 uint64 fixed32 fixed64
    U(u64),
    F32(u32),
    F64(u64),
    B(bool),
    /// string / bytes
    S(Vec<u8>),
    M(PMsg),
}

#[derive(Clone, Debug, PartialEq, Serialize, Deserialize)]
pub enum PF {
    One(PS),
    Rep(Vec<PS>),
    Map(Vec<(PS, PS)>),
}

#[derive(Clone, Debug, PartialEq, Default, Serialize, Deserialize)]
pub struct PMsg(pub Vec<(u32, PF)>);

impl PMsg {
    pub fn get(&self, n: u32) -> Option<&PF> {
        self.0.iter().find(|x| x.0 == n).map(|x| &x.1)
    }
    pub fn set(&mut self, n: u32, f: PF) {
        if let Some(x) = self.0.iter_mut().find(|x| x.0 == n) {
            x.1 = f;
        } else {
            self.0.push((n, f));
        }
    }
    pub fn remove(&mut self, n: u32) {
        self.0.retain(|x| x.0 != n);
    }
    pub fn show(&self) -> String {
        let mut s = String::from("{");
        for (i, (n, f)) in self.0.iter().enumerate() {
            if i > 0 {
                s.push(',');
            }
            s.push_str(&format!("{}:", n));
            match f {
                PF::One(x) => s.push_str(&show_ps(x)),
                PF::Rep(v) => {
                    s.push('[');
                    s.push_str(&v.iter().take(4).map(show_ps).collect::<Vec<_>>().join(","));
                    if v.len() > 4 {
                        s.push_str(&format!(",..x{}", v.len()));
                    }
                    s.push(']');
                }
                PF::Map(v) => {
                    s.push_str("map[");
                    s.push_str(&v.iter().take(3).map(|(k, x)| format!("{}=>{}", show_ps(k), show_ps(x))).collect::<Vec<_>>().join(","));
                    s.push(']');
                }
            }
        }
        s.push('}');
        s
    }
}

pub fn show_ps(x: &PS) -> String {
    match x {
        PS::I(i) => format!("{}", i),
        PS::U(u) => format!("{}u", u),
        PS::F32(b) => format!("f32#{:08x}", b),
        PS::F64(b) => format!("f64#{:016x}", b),
        PS::B(b) => format!("{}", b),
        PS::S(s) => {
            if s.len() <= 8 {
                format!("{:?}", String::from_utf8_lossy(s))
            } else {
                format!("str[len={}]", s.len())
            }
        }
        PS::M(m) => m.show(),
    }
}

// ------------------------------------------------------------------------------------------
// wire primitives

pub fn put_varint(o: &mut Vec<u8>, mut n: u64) {
    loop {
        let b = (n & 0x7f) as u8;
        n >>= 7;
        if n == 0 {
            o.push(b);
            return;
        }
        o.push(b | 0x80);
    }
}

pub fn zz32(n: i32) -> u64 {
    (((n << 1) ^ (n >> 31)) as u32) as u64
}
pub fn zz64(n: i64) -> u64 {
    ((n << 1) ^ (n >> 63)) as u64
}
pub fn unzz(n: u64) -> i64 {
    ((n >> 1) as i64) ^ -((n & 1) as i64)
}

pub fn wire_type(ty: &str) -> u8 {
    match ty {
        "int32" | "int64" | "uint32" | "uint64" | "sint32" | "sint64" | "bool" | "enum" => 0,
        "fixed64" | "sfixed64" | "double" => 1,
        "string" | "bytes" | "message" => 2,
        "group" => 3,
        "fixed32" | "sfixed32" | "float" => 5,
        x => panic!("MACHINERY: proto type {}", x),
    }
}

pub fn packable(ty: &str) -> bool {
    !matches!(wire_type(ty), 2 | 3)
}

fn key(o: &mut Vec<u8>, num: u32, wt: u8) {
    put_varint(o, ((num as u64) << 3) | wt as u64);
}

/// Encoded form kept as a tree so that record boundaries at every nesting level are known
/// (insertion of unknown fields, interleaving of two encodings).
#[derive(Clone, Debug, PartialEq)]
pub enum Node {
    Leaf(Vec<u8>),
    /// an embedded message (length-delimited), a map entry, or a group
    Msg { num: u32, group: bool, children: Vec<Node> },
}

pub fn flatten(nodes: &[Node]) -> Vec<u8> {
    let mut o = Vec::new();
    for n in nodes {
        flatten_node(n, &mut o);
    }
    o
}

fn flatten_node(n: &Node, o: &mut Vec<u8>) {
    match n {
        Node::Leaf(b) => o.extend_from_slice(b),
        Node::Msg { num, group, children } => {
            let inner = flatten(children);
            if *group {
                key(o, *num, 3);
                o.extend_from_slice(&inner);
                key(o, *num, 4);
            } else {
                key(o, *num, 2);
                put_varint(o, inner.len() as u64);
                o.extend_from_slice(&inner);
            }
        }
    }
}

/// number of record boundaries (before every record and after the last one, at every level)
pub fn boundaries(nodes: &[Node]) -> usize {
    let mut n = nodes.len() + 1;
    for x in nodes {
        if let Node::Msg { children, .. } = x {
            n += boundaries(children);
        }
    }
    n
}

/// the tree with `extra` inserted at boundary number `target` (pre-order numbering)
pub fn insert_at(nodes: &[Node], target: usize, extra: &Node) -> Vec<Node> {
    fn go(nodes: &[Node], counter: &mut usize, target: usize, extra: &Node) -> Vec<Node> {
        let mut out = Vec::new();
        for x in nodes {
            if *counter == target {
                out.push(extra.clone());
            }
            *counter += 1;
            match x {
                Node::Msg { num, group, children } => out.push(Node::Msg { num: *num, group: *group, children: go(children, counter, target, extra) }),
                l => out.push(l.clone()),
            }
        }
        if *counter == target {
            out.push(extra.clone());
        }
        *counter += 1;
        out
    }
    let mut c = 0;
    go(nodes, &mut c, target, extra)
}

/// nesting level (0 = top) of boundary number `target`
pub fn boundary_level(nodes: &[Node], target: usize) -> usize {
    fn go(nodes: &[Node], counter: &mut usize, target: usize, level: usize) -> Option<usize> {
        for x in nodes {
            if *counter == target {
                return Some(level);
            }
            *counter += 1;
            if let Node::Msg { children, .. } = x {
                if let Some(l) = go(children, counter, target, level + 1) {
                    return Some(l);
                }
            }
        }
        if *counter == target {
            return Some(level);
        }
        *counter += 1;
        None
    }
    let mut c = 0;
    go(nodes, &mut c, target, 0).unwrap_or(0)
}

/// the value bytes of a non-message scalar (without key)
pub fn put_scalar(o: &mut Vec<u8>, ty: &str, v: &PS) {
    match (ty, v) {
        ("int32", PS::I(i)) | ("enum", PS::I(i)) => put_varint(o, (*i as i32) as i64 as u64),
        ("int64", PS::I(i)) => put_varint(o, *i as u64),
        ("uint32", PS::U(u)) => put_varint(o, *u as u32 as u64),
        ("uint64", PS::U(u)) => put_varint(o, *u),
        ("sint32", PS::I(i)) => put_varint(o, zz32(*i as i32)),
        ("sint64", PS::I(i)) => put_varint(o, zz64(*i)),
        ("bool", PS::B(b)) => o.push(*b as u8),
        ("fixed32", PS::U(u)) => o.extend_from_slice(&(*u as u32).to_le_bytes()),
        ("sfixed32", PS::I(i)) => o.extend_from_slice(&(*i as i32).to_le_bytes()),
        ("float", PS::F32(b)) => o.extend_from_slice(&b.to_le_bytes()),
        ("fixed64", PS::U(u)) => o.extend_from_slice(&u.to_le_bytes()),
        ("sfixed64", PS::I(i)) => o.extend_from_slice(&i.to_le_bytes()),
        ("double", PS::F64(b)) => o.extend_from_slice(&b.to_le_bytes()),
        ("string", PS::S(s)) | ("bytes", PS::S(s)) => {
            put_varint(o, s.len() as u64);
            o.extend_from_slice(s);
        }
        (t, v) => panic!("MACHINERY: value {:?} does not fit type {}", v, t),
    }
}

/// one occurrence of field `num` holding `v` (key + value)
fn occurrence(doc: &PDoc, num: u32, ty: &str, tyname: Option<&str>, v: &PS, ch: &mut dyn FnMut(PChoice) -> usize) -> Node {
    match (ty, v) {
        ("message", PS::M(m)) => Node::Msg { num, group: false, children: encode_nodes(doc, doc.msg(tyname.unwrap()), m, ch) },
        ("group", PS::M(m)) => Node::Msg { num, group: true, children: encode_nodes(doc, doc.msg(tyname.unwrap()), m, ch) },
        _ => {
            let mut o = Vec::new();
            key(&mut o, num, wire_type(ty));
            put_scalar(&mut o, ty, v);
            Node::Leaf(o)
        }
    }
}

/// choice points of the reference encoder
#[derive(Clone, Copy, Debug, PartialEq, Eq)]
pub enum PChoice {
    /// field record order: index of the permutation among `n!` (only offered for <= 5 records)
    Order(usize),
    /// repeated scalar: 0 unpacked, 1 packed, 2 two packed runs, 3 packed run then unpacked rest
    Packing,
    /// map entry: 0 key then value, 1 value then key, 2 key omitted when default, 3 value omitted when default
    MapEntry,
    /// singular field holding its default: 0 written, 1 omitted
    DefaultOmitted,
}

pub fn arity(c: PChoice) -> usize {
    match c {
        PChoice::Order(n) => n,
        PChoice::Packing => 4,
        PChoice::MapEntry => 4,
        PChoice::DefaultOmitted => 2,
    }
}

pub fn is_default(ty: &str, v: &PS) -> bool {
    match v {
        PS::I(0) | PS::U(0) | PS::F32(0) | PS::F64(0) | PS::B(false) => true,
        PS::S(s) => s.is_empty(),
        PS::M(_) => false,
        _ => {
            let _ = ty;
            false
        }
    }
}

fn factorial(n: usize) -> usize {
    (1..=n).product()
}

fn nth_permutation(n: usize, mut k: usize) -> Vec<usize> {
    let mut items: Vec<usize> = (0..n).collect();
    let mut out = Vec::new();
    for i in (1..=n).rev() {
        let f = factorial(i - 1);
        out.push(items.remove(k / f));
        k %= f;
    }
    out
}

fn packed_run(num: u32, ty: &str, items: &[PS]) -> Vec<u8> {
    let mut body = Vec::new();
    for it in items {
        put_scalar(&mut body, ty, it);
    }
    let mut o = Vec::new();
    key(&mut o, num, 2);
    put_varint(&mut o, body.len() as u64);
    o.extend_from_slice(&body);
    o
}

/// Records of a message in the order chosen through `ch`; one record group per field (the
/// occurrences of a repeated field or the entries of a map stay adjacent and in order).
pub fn encode_nodes(doc: &PDoc, m: &PMessage, v: &PMsg, ch: &mut dyn FnMut(PChoice) -> usize) -> Vec<Node> {
    let mut records: Vec<Vec<Node>> = Vec::new();
    for f in &m.fields {
        let val = match v.get(f.num) {
            Some(x) => x,
            None => continue,
        };
        let tn = f.tyname.as_deref();
        match (f.label.as_str(), val) {
            ("repeated", PF::Rep(items)) => {
                if items.is_empty() {
                    continue;
                }
                let mode = if packable(&f.ty) { ch(PChoice::Packing) } else { 0 };
                let mut o = Vec::new();
                match mode {
                    0 => {
                        for it in items {
                            o.push(occurrence(doc, f.num, &f.ty, tn, it, ch));
                        }
                    }
                    1 => o.push(Node::Leaf(packed_run(f.num, &f.ty, items))),
                    2 => {
                        let mid = items.len() / 2;
                        o.push(Node::Leaf(packed_run(f.num, &f.ty, &items[..mid])));
                        o.push(Node::Leaf(packed_run(f.num, &f.ty, &items[mid..])));
                    }
                    _ => {
                        let mid = (items.len() + 1) / 2;
                        o.push(Node::Leaf(packed_run(f.num, &f.ty, &items[..mid])));
                        for it in &items[mid..] {
                            o.push(occurrence(doc, f.num, &f.ty, tn, it, ch));
                        }
                    }
                }
                records.push(o);
            }
            ("map", PF::Map(entries)) => {
                let kt = f.key.as_deref().unwrap();
                let mut o = Vec::new();
                for (k, x) in entries {
                    let mode = ch(PChoice::MapEntry);
                    let kn = occurrence(doc, 1, kt, None, k, ch);
                    let vn = occurrence(doc, 2, &f.ty, tn, x, ch);
                    let children = match mode {
                        1 => vec![vn, kn],
                        2 if is_default(kt, k) => vec![vn],
                        3 if is_default(&f.ty, x) => vec![kn],
                        _ => vec![kn, vn],
                    };
                    o.push(Node::Msg { num: f.num, group: false, children });
                }
                if !o.is_empty() {
                    records.push(o);
                }
            }
            (label, PF::One(x)) => {
                // a proto3 singular (non-optional) field at its default may be omitted
                if label == "singular" && is_default(&f.ty, x) && ch(PChoice::DefaultOmitted) == 1 {
                    continue;
                }
                records.push(vec![occurrence(doc, f.num, &f.ty, tn, x, ch)]);
            }
            (l, x) => panic!("MACHINERY: field {} label {} value {:?}", f.name, l, x),
        }
    }
    let n = records.len();
    let order: Vec<usize> = if (2..=5).contains(&n) { nth_permutation(n, ch(PChoice::Order(factorial(n)))) } else { (0..n).collect() };
    let mut out = Vec::new();
    for i in order {
        out.extend(records[i].iter().cloned());
    }
    out
}

pub fn encode_with(doc: &PDoc, m: &PMessage, v: &PMsg, ch: &mut dyn FnMut(PChoice) -> usize) -> Vec<u8> {
    flatten(&encode_nodes(doc, m, v, ch))
}

pub fn encode(doc: &PDoc, m: &PMessage, v: &PMsg) -> Vec<u8> {
    encode_with(doc, m, v, &mut |_| 0)
}

// ------------------------------------------------------------------------------------------
// decoder with merge semantics

#[derive(Debug, Clone, PartialEq)]
pub enum PErr {
    Eof,
    BadVarint,
    BadWireType(u8),
    WrongWireType(u32),
    BadGroup,
    LenOverflow,
    TagZero,
    TooDeep,
    /// (strict mode) a 32-bit or bool value written outside its canonical range
    NonCanonical32(u64),
}

struct Rd<'a> {
    b: &'a [u8],
    pos: usize,
}

impl<'a> Rd<'a> {
    fn varint(&mut self) -> Result<u64, PErr> {
        let mut r = 0u64;
        for i in 0..10 {
            let b = *self.b.get(self.pos).ok_or(PErr::Eof)?;
            self.pos += 1;
            if i == 9 && b > 1 {
                return Err(PErr::BadVarint);
            }
            r |= ((b & 0x7f) as u64) << (7 * i);
            if b & 0x80 == 0 {
                return Ok(r);
            }
        }
        Err(PErr::BadVarint)
    }
    fn take(&mut self, n: usize) -> Result<&'a [u8], PErr> {
        if self.b.len() - self.pos < n {
            return Err(PErr::LenOverflow);
        }
        let s = &self.b[self.pos..self.pos + n];
        self.pos += n;
        Ok(s)
    }
    fn skip(&mut self, wt: u8, num: u32, depth: usize) -> Result<(), PErr> {
        if depth > 100 {
            return Err(PErr::TooDeep);
        }
        match wt {
            0 => {
                self.varint()?;
            }
            1 => {
                self.take(8)?;
            }
            2 => {
                let n = self.varint()? as usize;
                self.take(n)?;
            }
            5 => {
                self.take(4)?;
            }
            3 => loop {
                let k = self.varint()?;
                let (n2, w2) = ((k >> 3) as u32, (k & 7) as u8);
                if w2 == 4 {
                    if n2 != num {
                        return Err(PErr::BadGroup);
                    }
                    break;
                }
                self.skip(w2, n2, depth + 1)?;
            },
            w => return Err(PErr::BadWireType(w)),
        }
        Ok(())
    }
}

thread_local! {
    /// strict mode: the bytes come from the encoder under test, which must write canonical values
    static STRICT: std::cell::Cell<bool> = const { std::cell::Cell::new(false) };
}

/// Decodes bytes written by the encoder under test: besides everything `decode` checks, 32-bit
/// varint types must be written as the specification prescribes (uint32 / sint32 below 2^32;
/// int32 / enum below 2^31 or sign-extended to 64 bits; bool 0 or 1). A conforming peer may
/// truncate such values silently or reject them, so they are not "valid wire format".
pub fn decode_strict(doc: &PDoc, m: &PMessage, bytes: &[u8]) -> Result<PMsg, PErr> {
    STRICT.with(|s| s.set(true));
    let r = decode(doc, m, bytes);
    STRICT.with(|s| s.set(false));
    r
}

fn varint32(r: &mut Rd, signed_ext: bool) -> Result<u64, PErr> {
    let v = r.varint()?;
    if STRICT.with(|s| s.get()) {
        let ok = if signed_ext { v < (1 << 31) || v >= u64::MAX - (1 << 31) + 1 } else { v <= u32::MAX as u64 };
        if !ok {
            return Err(PErr::NonCanonical32(v));
        }
    }
    Ok(v)
}

fn get_scalar(doc: &PDoc, ty: &str, tyname: Option<&str>, field_num: u32, r: &mut Rd, depth: usize) -> Result<PS, PErr> {
    Ok(match ty {
        "int32" | "enum" => PS::I((varint32(r, true)? as i32) as i64),
        "int64" => PS::I(r.varint()? as i64),
        "uint32" => PS::U(varint32(r, false)? as u32 as u64),
        "uint64" => PS::U(r.varint()?),
        "sint32" => PS::I(unzz(varint32(r, false)? as u32 as u64) as i32 as i64),
        "sint64" => PS::I(unzz(r.varint()?)),
        "bool" => {
            let v = r.varint()?;
            if STRICT.with(|s| s.get()) && v > 1 {
                return Err(PErr::NonCanonical32(v));
            }
            PS::B(v != 0)
        }
        "fixed32" => PS::U(u32::from_le_bytes(r.take(4)?.try_into().unwrap()) as u64),
        "sfixed32" => PS::I(i32::from_le_bytes(r.take(4)?.try_into().unwrap()) as i64),
        "float" => PS::F32(u32::from_le_bytes(r.take(4)?.try_into().unwrap())),
        "fixed64" => PS::U(u64::from_le_bytes(r.take(8)?.try_into().unwrap())),
        "sfixed64" => PS::I(i64::from_le_bytes(r.take(8)?.try_into().unwrap())),
        "double" => PS::F64(u64::from_le_bytes(r.take(8)?.try_into().unwrap())),
        "string" | "bytes" => {
            let n = r.varint()? as usize;
            PS::S(r.take(n)?.to_vec())
        }
        "message" => {
            let n = r.varint()? as usize;
            let body = r.take(n)?;
            let mut m = PMsg::default();
            merge_into(doc, doc.msg(tyname.unwrap()), &mut m, body, depth + 1)?;
            PS::M(m)
        }
        "group" => {
            let mut m = PMsg::default();
            merge_records(doc, doc.msg(tyname.unwrap()), &mut m, r, Some(field_num), depth + 1)?;
            PS::M(m)
        }
        x => panic!("MACHINERY: type {}", x),
    })
}

pub fn default_of(ty: &str) -> PS {
    match ty {
        "int32" | "int64" | "sint32" | "sint64" | "sfixed32" | "sfixed64" | "enum" => PS::I(0),
        "uint32" | "uint64" | "fixed32" | "fixed64" => PS::U(0),
        "float" => PS::F32(0),
        "double" => PS::F64(0),
        "bool" => PS::B(false),
        "string" | "bytes" => PS::S(vec![]),
        _ => PS::M(PMsg::default()),
    }
}

/// decode `bytes` and merge into `into` (spec semantics)
pub fn merge_into(doc: &PDoc, m: &PMessage, into: &mut PMsg, bytes: &[u8], depth: usize) -> Result<(), PErr> {
    let mut r = Rd { b: bytes, pos: 0 };
    merge_records(doc, m, into, &mut r, None, depth)
}

fn merge_records(doc: &PDoc, m: &PMessage, into: &mut PMsg, r: &mut Rd, end_group: Option<u32>, depth: usize) -> Result<(), PErr> {
    if depth > 100 {
        return Err(PErr::TooDeep);
    }
    loop {
        if r.pos >= r.b.len() {
            return if end_group.is_some() { Err(PErr::Eof) } else { Ok(()) };
        }
        let k = r.varint()?;
        if k > u32::MAX as u64 {
            return Err(PErr::BadVarint);
        }
        let (num, wt) = ((k >> 3) as u32, (k & 7) as u8);
        if num == 0 {
            return Err(PErr::TagZero);
        }
        if wt == 4 {
            return if end_group == Some(num) { Ok(()) } else { Err(PErr::BadGroup) };
        }
        let f = match m.fields.iter().find(|f| f.num == num) {
            Some(f) => f,
            None => {
                r.skip(wt, num, depth)?;
                continue;
            }
        };
        let tn = f.tyname.as_deref();
        match f.label.as_str() {
            "repeated" => {
                let mut items = match into.get(num) {
                    Some(PF::Rep(v)) => v.clone(),
                    _ => vec![],
                };
                if wt == 2 && packable(&f.ty) {
                    let n = r.varint()? as usize;
                    let body = r.take(n)?;
                    let mut r2 = Rd { b: body, pos: 0 };
                    while r2.pos < body.len() {
                        items.push(get_scalar(doc, &f.ty, tn, num, &mut r2, depth)?);
                    }
                } else {
                    if wt != wire_type(&f.ty) {
                        return Err(PErr::WrongWireType(num));
                    }
                    items.push(get_scalar(doc, &f.ty, tn, num, r, depth)?);
                }
                into.set(num, PF::Rep(items));
            }
            "map" => {
                if wt != 2 {
                    return Err(PErr::WrongWireType(num));
                }
                let n = r.varint()? as usize;
                let body = r.take(n)?;
                let kt = f.key.as_deref().unwrap();
                let (mut k, mut v) = (default_of(kt), default_of(&f.ty));
                let mut r2 = Rd { b: body, pos: 0 };
                while r2.pos < body.len() {
                    let kk = r2.varint()?;
                    let (n2, w2) = ((kk >> 3) as u32, (kk & 7) as u8);
                    match n2 {
                        1 => {
                            if w2 != wire_type(kt) {
                                return Err(PErr::WrongWireType(num));
                            }
                            k = get_scalar(doc, kt, None, 1, &mut r2, depth)?
                        }
                        2 => {
                            if w2 != wire_type(&f.ty) {
                                return Err(PErr::WrongWireType(num));
                            }
                            let x = get_scalar(doc, &f.ty, tn, 2, &mut r2, depth)?;
                            // an embedded message value repeated inside one entry merges
                            v = match (&v, &x) {
                                (PS::M(old), PS::M(new)) => {
                                    let mut o = old.clone();
                                    merge_msgs(doc, doc.msg(tn.unwrap()), &mut o, new);
                                    PS::M(o)
                                }
                                _ => x,
                            };
                        }
                        _ => r2.skip(w2, n2, depth)?,
                    }
                }
                let mut entries = match into.get(num) {
                    Some(PF::Map(e)) => e.clone(),
                    _ => vec![],
                };
                if let Some(e) = entries.iter_mut().find(|e| e.0 == k) {
                    e.1 = v;
                } else {
                    entries.push((k, v));
                }
                into.set(num, PF::Map(entries));
            }
            label => {
                if wt != wire_type(&f.ty) {
                    return Err(PErr::WrongWireType(num));
                }
                let x = get_scalar(doc, &f.ty, tn, num, r, depth)?;
                // oneof: a member replaces every other member of its group
                if label == "oneof" {
                    let group = f.oneof.as_deref();
                    for g in m.fields.iter().filter(|g| g.oneof.as_deref() == group && g.num != num) {
                        into.remove(g.num);
                    }
                }
                // embedded messages merge field-wise with a previous occurrence
                let merged = match (into.get(num), &x) {
                    (Some(PF::One(PS::M(old))), PS::M(new)) => {
                        let mut o = old.clone();
                        merge_msgs(doc, doc.msg(tn.unwrap()), &mut o, new);
                        PS::M(o)
                    }
                    _ => x,
                };
                into.set(num, PF::One(merged));
            }
        }
    }
}

/// spec merge of two decoded messages (used for nested occurrences)
pub fn merge_msgs(doc: &PDoc, m: &PMessage, into: &mut PMsg, from: &PMsg) {
    for (num, f) in &from.0 {
        let fd = match m.fields.iter().find(|x| x.num == *num) {
            Some(x) => x,
            None => continue,
        };
        match (fd.label.as_str(), f) {
            ("repeated", PF::Rep(v)) => {
                let mut items = match into.get(*num) {
                    Some(PF::Rep(o)) => o.clone(),
                    _ => vec![],
                };
                items.extend(v.iter().cloned());
                into.set(*num, PF::Rep(items));
            }
            ("map", PF::Map(v)) => {
                let mut entries = match into.get(*num) {
                    Some(PF::Map(o)) => o.clone(),
                    _ => vec![],
                };
                for (k, x) in v {
                    if let Some(e) = entries.iter_mut().find(|e| e.0 == *k) {
                        e.1 = x.clone();
                    } else {
                        entries.push((k.clone(), x.clone()));
                    }
                }
                into.set(*num, PF::Map(entries));
            }
            (label, PF::One(x)) => {
                if label == "oneof" {
                    let group = fd.oneof.as_deref();
                    for g in m.fields.iter().filter(|g| g.oneof.as_deref() == group && g.num != *num) {
                        into.remove(g.num);
                    }
                }
                let merged = match (into.get(*num), x) {
                    (Some(PF::One(PS::M(old))), PS::M(new)) => {
                        let mut o = old.clone();
                        merge_msgs(doc, doc.msg(fd.tyname.as_deref().unwrap()), &mut o, new);
                        PS::M(o)
                    }
                    _ => x.clone(),
                };
                into.set(*num, PF::One(merged));
            }
            _ => {}
        }
    }
}

pub fn decode(doc: &PDoc, m: &PMessage, bytes: &[u8]) -> Result<PMsg, PErr> {
    let mut v = PMsg::default();
    merge_into(doc, m, &mut v, bytes, 0)?;
    Ok(v)
}

/// Normal form for comparison: fields in schema order; singular/required scalars always present
/// (defaults filled; pilota's generated types hold plain values there); empty repeated/map
/// absent; map entries sorted by encoded key; nested messages normalised.
pub fn norm(doc: &PDoc, m: &PMessage, v: &PMsg) -> PMsg {
    let mut out = Vec::new();
    for f in &m.fields {
        let tn = f.tyname.as_deref();
        let nm = |x: &PS| -> PS {
            match x {
                PS::M(mm) => PS::M(norm(doc, doc.msg(tn.unwrap()), mm)),
                o => o.clone(),
            }
        };
        match (f.label.as_str(), v.get(f.num)) {
            ("repeated", Some(PF::Rep(items))) if !items.is_empty() => out.push((f.num, PF::Rep(items.iter().map(nm).collect()))),
            ("map", Some(PF::Map(e))) if !e.is_empty() => {
                let mut es: Vec<(PS, PS)> = e.iter().map(|(k, x)| (k.clone(), nm(x))).collect();
                es.sort_by_key(|x| format!("{:?}", x.0));
                out.push((f.num, PF::Map(es)));
            }
            ("singular", Some(PF::One(x))) | ("required", Some(PF::One(x))) => out.push((f.num, PF::One(nm(x)))),
            ("singular", None) | ("required", None) => {
                if f.ty != "message" {
                    out.push((f.num, PF::One(default_of(&f.ty))));
                } else if f.label == "required" {
                    out.push((f.num, PF::One(PS::M(norm(doc, doc.msg(tn.unwrap()), &PMsg::default())))));
                }
            }
            ("optional", Some(PF::One(x))) | ("oneof", Some(PF::One(x))) => out.push((f.num, PF::One(nm(x)))),
            _ => {}
        }
    }
    PMsg(out)
}

pub fn self_check() -> Result<usize, String> {
    // vectors of the protobuf encoding guide
    let doc = PDoc {
        name: "t".into(),
        syntax: "proto3".into(),
        messages: vec![PMessage {
            name: "T".into(),
            fq: "T".into(),
            fields: vec![
                PField { num: 1, name: "a".into(), label: "optional".into(), ty: "int32".into(), tyname: None, key: None, oneof: None },
                PField { num: 2, name: "b".into(), label: "optional".into(), ty: "string".into(), tyname: None, key: None, oneof: None },
                PField { num: 4, name: "d".into(), label: "repeated".into(), ty: "int32".into(), tyname: None, key: None, oneof: None },
                PField { num: 5, name: "z".into(), label: "optional".into(), ty: "sint32".into(), tyname: None, key: None, oneof: None },
            ],
            enums: vec![],
        }],
        enums: HashMap::new(),
    };
    let m = &doc.messages[0];
    let mut n = 0;
    let mut eq = |what: &str, got: Vec<u8>, want: &[u8]| -> Result<(), String> {
        n += 1;
        if got != want {
            return Err(format!("pbref self-check {}: got {:02x?} want {:02x?}", what, got, want));
        }
        Ok(())
    };
    eq("a=150", encode(&doc, m, &PMsg(vec![(1, PF::One(PS::I(150)))])), &[0x08, 0x96, 0x01])?;
    eq("b=testing", encode(&doc, m, &PMsg(vec![(2, PF::One(PS::S(b"testing".to_vec())))])), &[0x12, 0x07, 0x74, 0x65, 0x73, 0x74, 0x69, 0x6e, 0x67])?;
    let packed = encode_with(&doc, m, &PMsg(vec![(4, PF::Rep(vec![PS::I(3), PS::I(270), PS::I(86942)]))]), &mut |c| if c == PChoice::Packing { 1 } else { 0 });
    eq("packed", packed, &[0x22, 0x06, 0x03, 0x8e, 0x02, 0x9e, 0xa7, 0x05])?;
    eq("sint -1", encode(&doc, m, &PMsg(vec![(5, PF::One(PS::I(-1)))])), &[0x28, 0x01])?;
    eq("sint 2147483647", encode(&doc, m, &PMsg(vec![(5, PF::One(PS::I(2147483647)))])), &[0x28, 0xfe, 0xff, 0xff, 0xff, 0x0f])?;
    eq("int32 -1 is ten bytes", encode(&doc, m, &PMsg(vec![(1, PF::One(PS::I(-1)))])), &[0x08, 0xff, 0xff, 0xff, 0xff, 0xff, 0xff, 0xff, 0xff, 0xff, 0x01])?;
    for (i, z) in [(0i32, 0u64), (-1, 1), (1, 2), (-2, 3), (2147483647, 4294967294), (-2147483648, 4294967295)] {
        if zz32(i) != z {
            return Err(format!("zigzag {}", i));
        }
    }
    Ok(n)
}

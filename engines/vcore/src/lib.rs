pub mod alloc;
pub mod explore;
pub mod guard;
pub mod pbref;
pub mod refcodec;
pub mod report;
pub mod val;

pub use serde_json;

//! Counting global allocator. Requests above `BIG` are served from lazily mapped MAP_NORESERVE
//! regions so that a decoder asking for gigabytes is *measured* instead of killing the worker.

use std::alloc::{GlobalAlloc, Layout, System};
use std::sync::atomic::{AtomicBool, AtomicUsize, Ordering::Relaxed};

pub struct Counting;

pub const BIG: usize = 64 << 20;

static LIVE: AtomicUsize = AtomicUsize::new(0);
static PEAK: AtomicUsize = AtomicUsize::new(0);
static TOTAL: AtomicUsize = AtomicUsize::new(0);
static MAXREQ: AtomicUsize = AtomicUsize::new(0);
static NALLOC: AtomicUsize = AtomicUsize::new(0);
static ON: AtomicBool = AtomicBool::new(true);

unsafe impl GlobalAlloc for Counting {
    unsafe fn alloc(&self, l: Layout) -> *mut u8 {
        let p = if l.size() >= BIG {
            let p = libc::mmap(
                std::ptr::null_mut(),
                l.size(),
                libc::PROT_READ | libc::PROT_WRITE,
                libc::MAP_PRIVATE | libc::MAP_ANONYMOUS | libc::MAP_NORESERVE,
                -1,
                0,
            );
            if p == libc::MAP_FAILED {
                std::ptr::null_mut()
            } else {
                p as *mut u8
            }
        } else {
            System.alloc(l)
        };
        if !p.is_null() && ON.load(Relaxed) {
            note_alloc(l.size());
        }
        p
    }
    unsafe fn alloc_zeroed(&self, l: Layout) -> *mut u8 {
        if l.size() >= BIG {
            // fresh anonymous mappings are zero
            return self.alloc(l);
        }
        let p = System.alloc_zeroed(l);
        if !p.is_null() && ON.load(Relaxed) {
            note_alloc(l.size());
        }
        p
    }
    unsafe fn dealloc(&self, p: *mut u8, l: Layout) {
        if l.size() >= BIG {
            libc::munmap(p as *mut libc::c_void, l.size());
        } else {
            System.dealloc(p, l);
        }
        if ON.load(Relaxed) {
            LIVE.fetch_sub(l.size(), Relaxed);
        }
    }
    unsafe fn realloc(&self, p: *mut u8, l: Layout, new: usize) -> *mut u8 {
        if l.size() >= BIG || new >= BIG {
            let nl = Layout::from_size_align_unchecked(new, l.align());
            let np = self.alloc(nl);
            if !np.is_null() {
                std::ptr::copy_nonoverlapping(p, np, l.size().min(new));
                self.dealloc(p, l);
            }
            return np;
        }
        let np = System.realloc(p, l, new);
        if !np.is_null() && ON.load(Relaxed) {
            LIVE.fetch_sub(l.size(), Relaxed);
            note_alloc(new);
        }
        np
    }
}

#[inline]
fn note_alloc(sz: usize) {
    let live = LIVE.fetch_add(sz, Relaxed) + sz;
    PEAK.fetch_max(live, Relaxed);
    TOTAL.fetch_add(sz, Relaxed);
    MAXREQ.fetch_max(sz, Relaxed);
    NALLOC.fetch_add(1, Relaxed);
}

#[derive(Clone, Copy, Debug, Default)]
pub struct Snap {
    pub live: usize,
    pub total: usize,
    pub maxreq: usize,
    pub nalloc: usize,
}

pub fn live() -> usize {
    LIVE.load(Relaxed)
}

/// Start a measurement window: resets total / maxreq and returns the live byte count.
pub fn window_start() -> Snap {
    TOTAL.store(0, Relaxed);
    MAXREQ.store(0, Relaxed);
    NALLOC.store(0, Relaxed);
    PEAK.store(LIVE.load(Relaxed), Relaxed);
    Snap { live: LIVE.load(Relaxed), total: 0, maxreq: 0, nalloc: 0 }
}

pub fn window_read() -> Snap {
    Snap {
        live: LIVE.load(Relaxed),
        total: TOTAL.load(Relaxed),
        maxreq: MAXREQ.load(Relaxed),
        nalloc: NALLOC.load(Relaxed),
    }
}

pub fn peak() -> usize {
    PEAK.load(Relaxed)
}

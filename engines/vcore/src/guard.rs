//! Guard-page arena: inputs are placed so that they END exactly at a PROT_NONE page; a read past
//! the end of the input faults the worker (an observation attributed to the announced case).

pub struct Arena {
    base: *mut u8,
    size: usize,
}

impl Arena {
    pub fn new(size: usize) -> Arena {
        let page = 4096;
        let size = (size + page - 1) / page * page;
        unsafe {
            let p = libc::mmap(
                std::ptr::null_mut(),
                size + page,
                libc::PROT_READ | libc::PROT_WRITE,
                libc::MAP_PRIVATE | libc::MAP_ANONYMOUS,
                -1,
                0,
            );
            assert!(p != libc::MAP_FAILED, "MACHINERY: mmap failed");
            let g = (p as *mut u8).add(size);
            assert_eq!(libc::mprotect(g as *mut libc::c_void, page, libc::PROT_NONE), 0);
            Arena { base: p as *mut u8, size }
        }
    }
    /// Copies `data` so that its last byte is the last accessible byte. The returned slice is
    /// valid until the next `place` (callers copy what they decode before placing again).
    pub fn place(&self, data: &[u8]) -> &'static [u8] {
        assert!(data.len() <= self.size, "MACHINERY: arena too small");
        unsafe {
            let dst = self.base.add(self.size - data.len());
            std::ptr::copy_nonoverlapping(data.as_ptr(), dst, data.len());
            std::slice::from_raw_parts(dst, data.len())
        }
    }
}

//! Dynamic Thrift values and their bounded enumerators.
//!
//! Nothing in this file depends on pilota: the wire-type codes are written out from the Apache
//! Thrift specification.

use serde::{Deserialize, Serialize};

/// Thrift wire types (binary protocol codes).
#[derive(Clone, Copy, Debug, PartialEq, Eq, Hash, PartialOrd, Ord, Serialize, Deserialize)]
#[repr(u8)]
pub enum T {
    Bool = 2,
    I8 = 3,
    Double = 4,
    I16 = 6,
    I32 = 8,
    I64 = 10,
    Bin = 11,
    Struct = 12,
    Map = 13,
    Set = 14,
    List = 15,
    Uuid = 16,
}

pub const ALL_T: [T; 12] = [
    T::Bool,
    T::I8,
    T::I16,
    T::I32,
    T::I64,
    T::Double,
    T::Bin,
    T::Uuid,
    T::Struct,
    T::List,
    T::Set,
    T::Map,
];
pub const LEAF_T: [T; 8] = [T::Bool, T::I8, T::I16, T::I32, T::I64, T::Double, T::Bin, T::Uuid];

impl T {
    pub fn from_u8(b: u8) -> Option<T> {
        Some(match b {
            2 => T::Bool,
            3 => T::I8,
            4 => T::Double,
            6 => T::I16,
            8 => T::I32,
            10 => T::I64,
            11 => T::Bin,
            12 => T::Struct,
            13 => T::Map,
            14 => T::Set,
            15 => T::List,
            16 => T::Uuid,
            _ => return None,
        })
    }
    /// compact-protocol type nibble (bool -> 1, i.e. BOOLEAN_TRUE, as container element type)
    pub fn compact(self) -> u8 {
        match self {
            T::Bool => 1,
            T::I8 => 3,
            T::I16 => 4,
            T::I32 => 5,
            T::I64 => 6,
            T::Double => 7,
            T::Bin => 8,
            T::List => 9,
            T::Set => 10,
            T::Map => 11,
            T::Struct => 12,
            T::Uuid => 13,
        }
    }
    pub fn from_compact(n: u8) -> Option<T> {
        Some(match n {
            1 | 2 => T::Bool,
            3 => T::I8,
            4 => T::I16,
            5 => T::I32,
            6 => T::I64,
            7 => T::Double,
            8 => T::Bin,
            9 => T::List,
            10 => T::Set,
            11 => T::Map,
            12 => T::Struct,
            13 => T::Uuid,
            _ => return None,
        })
    }
    pub fn is_leaf(self) -> bool {
        !matches!(self, T::Struct | T::Map | T::Set | T::List)
    }
    pub fn short(self) -> &'static str {
        match self {
            T::Bool => "bool",
            T::I8 => "i8",
            T::I16 => "i16",
            T::I32 => "i32",
            T::I64 => "i64",
            T::Double => "double",
            T::Bin => "bin",
            T::Uuid => "uuid",
            T::Struct => "struct",
            T::List => "list",
            T::Set => "set",
            T::Map => "map",
        }
    }
}

#[derive(Clone, Debug, PartialEq, Eq, Hash, Serialize, Deserialize)]
pub enum Val {
    Bool(bool),
    I8(i8),
    I16(i16),
    I32(i32),
    I64(i64),
    /// IEEE-754 bit pattern (compared bit-exactly)
    Double(u64),
    Bin(Vec<u8>),
    Uuid([u8; 16]),
    Struct(Vec<(i16, Val)>),
    List(T, Vec<Val>),
    Set(T, Vec<Val>),
    Map(T, T, Vec<(Val, Val)>),
}

impl Val {
    pub fn ty(&self) -> T {
        match self {
            Val::Bool(_) => T::Bool,
            Val::I8(_) => T::I8,
            Val::I16(_) => T::I16,
            Val::I32(_) => T::I32,
            Val::I64(_) => T::I64,
            Val::Double(_) => T::Double,
            Val::Bin(_) => T::Bin,
            Val::Uuid(_) => T::Uuid,
            Val::Struct(_) => T::Struct,
            Val::List(..) => T::List,
            Val::Set(..) => T::Set,
            Val::Map(..) => T::Map,
        }
    }
    pub fn depth(&self) -> usize {
        match self {
            Val::Struct(f) => 1 + f.iter().map(|(_, v)| v.depth()).max().unwrap_or(0),
            Val::List(_, e) | Val::Set(_, e) => 1 + e.iter().map(|v| v.depth()).max().unwrap_or(0),
            Val::Map(_, _, e) => {
                1 + e.iter().map(|(k, v)| k.depth().max(v.depth())).max().unwrap_or(0)
            }
            _ => 0,
        }
    }
    pub fn has_bin(&self) -> bool {
        match self {
            Val::Bin(_) => true,
            Val::Struct(f) => f.iter().any(|(_, v)| v.has_bin()),
            Val::List(_, e) | Val::Set(_, e) => e.iter().any(|v| v.has_bin()),
            Val::Map(_, _, e) => e.iter().any(|(k, v)| k.has_bin() || v.has_bin()),
            _ => false,
        }
    }
    pub fn node_count(&self) -> usize {
        match self {
            Val::Struct(f) => 1 + f.iter().map(|(_, v)| v.node_count()).sum::<usize>(),
            Val::List(_, e) | Val::Set(_, e) => 1 + e.iter().map(|v| v.node_count()).sum::<usize>(),
            Val::Map(_, _, e) => {
                1 + e.iter().map(|(k, v)| k.node_count() + v.node_count()).sum::<usize>()
            }
            _ => 1,
        }
    }
    /// Short human readable rendering used in samples and replay files.
    pub fn show(&self) -> String {
        let mut s = String::new();
        self.show_into(&mut s);
        s
    }
    fn show_into(&self, s: &mut String) {
        use std::fmt::Write;
        match self {
            Val::Bool(b) => write!(s, "{}", b).unwrap(),
            Val::I8(v) => write!(s, "{}i8", v).unwrap(),
            Val::I16(v) => write!(s, "{}i16", v).unwrap(),
            Val::I32(v) => write!(s, "{}i32", v).unwrap(),
            Val::I64(v) => write!(s, "{}i64", v).unwrap(),
            Val::Double(b) => write!(s, "f64#{:016x}", b).unwrap(),
            Val::Bin(b) => {
                if b.len() <= 8 {
                    write!(s, "bin{:02x?}", b).unwrap()
                } else {
                    write!(s, "bin[len={}]", b.len()).unwrap()
                }
            }
            Val::Uuid(u) => write!(s, "uuid#{:02x}..{:02x}", u[0], u[15]).unwrap(),
            Val::Struct(f) => {
                s.push('{');
                for (i, (id, v)) in f.iter().enumerate() {
                    if i > 0 {
                        s.push(',');
                    }
                    write!(s, "{}:", id).unwrap();
                    v.show_into(s);
                }
                s.push('}');
            }
            Val::List(t, e) | Val::Set(t, e) => {
                s.push_str(if matches!(self, Val::List(..)) { "list<" } else { "set<" });
                s.push_str(t.short());
                s.push_str(">[");
                if e.len() > 4 {
                    e[0].show_into(s);
                    write!(s, " x{}", e.len()).unwrap();
                } else {
                    for (i, v) in e.iter().enumerate() {
                        if i > 0 {
                            s.push(',');
                        }
                        v.show_into(s);
                    }
                }
                s.push(']');
            }
            Val::Map(k, v, e) => {
                write!(s, "map<{},{}>[", k.short(), v.short()).unwrap();
                for (i, (a, b)) in e.iter().enumerate() {
                    if i > 0 {
                        s.push(',');
                    }
                    if i >= 3 {
                        write!(s, "..x{}", e.len()).unwrap();
                        break;
                    }
                    a.show_into(s);
                    s.push_str("=>");
                    b.show_into(s);
                }
                s.push(']');
            }
        }
    }
    /// Kind-path of the first difference between two values ("" if equal).
    pub fn first_diff(&self, other: &Val) -> Option<String> {
        if self == other {
            return None;
        }
        Some(match (self, other) {
            (Val::Struct(a), Val::Struct(b)) => {
                if a.len() != b.len() {
                    return Some("struct.fieldcount".into());
                }
                for ((ia, va), (ib, vb)) in a.iter().zip(b) {
                    if ia != ib {
                        return Some("struct.fieldid".into());
                    }
                    if let Some(d) = va.first_diff(vb) {
                        return Some(format!("struct/{}", d));
                    }
                }
                "struct".into()
            }
            (Val::List(ta, a), Val::List(tb, b)) | (Val::Set(ta, a), Val::Set(tb, b)) => {
                let k = if matches!(self, Val::List(..)) { "list" } else { "set" };
                if ta != tb {
                    return Some(format!("{}.elemtype", k));
                }
                if a.len() != b.len() {
                    return Some(format!("{}.len", k));
                }
                for (x, y) in a.iter().zip(b) {
                    if let Some(d) = x.first_diff(y) {
                        return Some(format!("{}/{}", k, d));
                    }
                }
                k.into()
            }
            (Val::Map(ka, va, a), Val::Map(kb, vb, b)) => {
                if ka != kb || va != vb {
                    return Some("map.types".into());
                }
                if a.len() != b.len() {
                    return Some("map.len".into());
                }
                for ((k1, v1), (k2, v2)) in a.iter().zip(b) {
                    if let Some(d) = k1.first_diff(k2) {
                        return Some(format!("map.key/{}", d));
                    }
                    if let Some(d) = v1.first_diff(v2) {
                        return Some(format!("map.val/{}", d));
                    }
                }
                "map".into()
            }
            (a, b) if a.ty() == b.ty() => a.ty().short().to_string(),
            (a, b) => format!("kind:{}!={}", a.ty().short(), b.ty().short()),
        })
    }
}

// ------------------------------------------------------------------------------------------
// representatives and alphabets

pub fn rep_leaf(t: T) -> Val {
    match t {
        T::Bool => Val::Bool(true),
        T::I8 => Val::I8(0x12),
        T::I16 => Val::I16(0x1234),
        T::I32 => Val::I32(0x1234_5678),
        T::I64 => Val::I64(0x1234_5678_9abc_def0),
        T::Double => Val::Double(1.5f64.to_bits()),
        T::Bin => Val::Bin(b"ab".to_vec()),
        T::Uuid => Val::Uuid([0, 1, 2, 3, 4, 5, 6, 7, 8, 9, 10, 11, 12, 13, 14, 15]),
        _ => unreachable!(),
    }
}

/// second representative (used so that two elements of a container differ)
pub fn rep_leaf2(t: T) -> Val {
    match t {
        T::Bool => Val::Bool(false),
        T::I8 => Val::I8(-3),
        T::I16 => Val::I16(-300),
        T::I32 => Val::I32(-70000),
        T::I64 => Val::I64(-5_000_000_000),
        T::Double => Val::Double((-0.1f64).to_bits()),
        T::Bin => Val::Bin(b"xyz".to_vec()),
        T::Uuid => Val::Uuid([0xff; 16]),
        _ => unreachable!(),
    }
}

/// The empty / smallest value of a compound wire type (used as element of containers whose
/// elements are compound, at the depth limit).
pub fn rep_of(t: T) -> Val {
    match t {
        T::Struct => Val::Struct(vec![]),
        T::List => Val::List(T::I32, vec![]),
        T::Set => Val::Set(T::I32, vec![]),
        T::Map => Val::Map(T::I32, T::I32, vec![]),
        l => rep_leaf(l),
    }
}

pub fn int_boundaries(bits: u32) -> Vec<i64> {
    let mut v = vec![0i64, 1, -1];
    for k in 1..bits {
        let p = 1i128 << k;
        for c in [p - 1, p, -p, -p + 1, -p - 1, p + 1] {
            let min = -(1i128 << (bits - 1));
            let max = (1i128 << (bits - 1)) - 1;
            if c >= min && c <= max {
                v.push(c as i64);
            }
        }
    }
    v.sort();
    v.dedup();
    v
}

pub fn double_alphabet() -> Vec<u64> {
    let mut v: Vec<u64> = vec![
        0x0000_0000_0000_0000, // +0
        0x8000_0000_0000_0000, // -0
        0x0000_0000_0000_0001, // min subnormal
        0x800f_ffff_ffff_ffff, // -max subnormal
        0x0010_0000_0000_0000, // min normal
        0x7fef_ffff_ffff_ffff, // max
        0xffef_ffff_ffff_ffff, // -max
        0x7ff0_0000_0000_0000, // +inf
        0xfff0_0000_0000_0000, // -inf
        0x7ff8_0000_0000_0000, // qNaN
        0xfff8_0000_0000_0001, // -qNaN payload
        0x7ff0_0000_0000_0001, // sNaN
        0x7ff4_5678_9abc_def0, // sNaN payload
        0x0102_0304_0506_0708, // asymmetric bytes
        0xf1e2_d3c4_b5a6_9788,
        0x3ff0_0000_0000_0000, // 1.0
        0xbff8_0000_0000_0000, // -1.5
        0x4059_0000_0000_0000, // 100.0
        0x3fb9_9999_9999_999a, // 0.1
        0x400921fb54442d18,    // pi
    ];
    // single-byte patterns: exactly one non-zero byte in each position (endianness detectors)
    for i in 0..8 {
        v.push(0xa5u64 << (8 * i));
    }
    // alternating
    v.push(0x00ff_00ff_00ff_00ff);
    v.push(0xff00_ff00_ff00_ff00);
    for i in 0..10u64 {
        v.push(0x1111_1111_1111_1111u64.wrapping_mul(i + 3) ^ (i << 60));
    }
    v.sort();
    v.dedup();
    v
}

pub fn bin_of_len(n: usize) -> Vec<u8> {
    // printable ASCII so that the value is valid for the string-flavoured APIs too
    (0..n).map(|i| b'a' + (i % 23) as u8).collect()
}

pub const BIN_LENS_QUICK: [usize; 9] = [0, 1, 2, 127, 128, 4095, 4096, 4097, 16384];
pub const BIN_LENS_THOROUGH: [usize; 14] =
    [0, 1, 2, 127, 128, 255, 256, 4095, 4096, 4097, 16383, 16384, 65536, 1 << 21];

/// Field ids whose neighbourhoods matter to the compact protocol (delta 1..15 short form).
pub const ID_SET: [i16; 13] = [-32768, -1, 0, 1, 2, 15, 16, 17, 127, 128, 255, 256, 32767];

// ------------------------------------------------------------------------------------------
// shape enumeration

/// All leaves at their representative.
pub fn leaves() -> Vec<Val> {
    LEAF_T.iter().map(|t| rep_leaf(*t)).collect()
}

/// All shapes of nesting depth <= `depth`.
///
/// depth 0: the 8 leaves.
/// depth d: leaves, plus
///   * structs of 0..=w fields with ids 1..=w (ascending, delta 1) whose field values range over
///     all shapes of depth d-1 (full product);
///   * lists and sets of every element shape of depth d-1 with `lens` elements (the i-th element
///     is the shape itself for even i, and for leaf shapes the second representative for odd i),
///     plus the empty list/set of every element wire type;
///   * maps of every (key shape, value shape) pair of depth d-1 with 1 and 2 entries, plus the
///     empty map of every (key type, value type) pair.
pub fn shapes(depth: usize, w: usize, lens: &[usize], out: &mut Vec<Val>) {
    let base = leaves();
    if depth == 0 {
        out.extend(base);
        return;
    }
    let mut inner = Vec::new();
    shapes(depth - 1, w, lens, &mut inner);
    out.extend(base);
    compose(&inner, w, lens, out);
}

fn variant(v: &Val, i: usize) -> Val {
    if i % 2 == 1 && v.ty().is_leaf() {
        rep_leaf2(v.ty())
    } else {
        v.clone()
    }
}

pub fn compose(inner: &[Val], w: usize, lens: &[usize], out: &mut Vec<Val>) {
    // structs
    out.push(Val::Struct(vec![]));
    if w >= 1 {
        for a in inner {
            out.push(Val::Struct(vec![(1, a.clone())]));
        }
    }
    if w >= 2 {
        for a in inner {
            for b in inner {
                out.push(Val::Struct(vec![(1, a.clone()), (2, b.clone())]));
            }
        }
    }
    if w >= 3 {
        for a in inner {
            for b in inner {
                for c in inner {
                    out.push(Val::Struct(vec![(1, a.clone()), (2, b.clone()), (3, c.clone())]));
                }
            }
        }
    }
    // lists / sets
    for t in ALL_T {
        out.push(Val::List(t, vec![]));
        out.push(Val::Set(t, vec![]));
    }
    for e in inner {
        for &n in lens {
            if n == 0 {
                continue;
            }
            let items: Vec<Val> = (0..n).map(|i| variant(e, i)).collect();
            out.push(Val::List(e.ty(), items.clone()));
            out.push(Val::Set(e.ty(), items));
        }
    }
    // maps
    for k in ALL_T {
        for v in ALL_T {
            out.push(Val::Map(k, v, vec![]));
        }
    }
    for k in inner {
        for v in inner {
            for n in [1usize, 2] {
                let items: Vec<(Val, Val)> = (0..n).map(|i| (variant(k, i), variant(v, i))).collect();
                out.push(Val::Map(k.ty(), v.ty(), items));
            }
        }
    }
}

/// One-level wrappers of `x` used to reach depth d+1 without the full product: x as the only
/// field, before a sibling, after a sibling, as list/set element (1 and 2 copies), as map key and
/// as map value.
pub fn wrap_all(x: &Val, out: &mut Vec<Val>) {
    let sib = Val::I32(7);
    out.push(Val::Struct(vec![(1, x.clone())]));
    out.push(Val::Struct(vec![(1, x.clone()), (2, sib.clone())]));
    out.push(Val::Struct(vec![(1, sib.clone()), (2, x.clone())]));
    out.push(Val::Struct(vec![(1, Val::Bool(true)), (2, x.clone()), (3, Val::Bool(false))]));
    out.push(Val::List(x.ty(), vec![x.clone()]));
    out.push(Val::List(x.ty(), vec![x.clone(), x.clone()]));
    out.push(Val::Set(x.ty(), vec![x.clone()]));
    out.push(Val::Map(x.ty(), T::I32, vec![(x.clone(), sib.clone())]));
    out.push(Val::Map(T::I32, x.ty(), vec![(sib.clone(), x.clone())]));
    out.push(Val::Map(x.ty(), x.ty(), vec![(x.clone(), x.clone()), (x.clone(), x.clone())]));
}

/// Scalar-sweep contexts: the scalar at top level, as a struct field (after a sibling and before
/// one), as list element, as map key and as map value.
pub fn contexts(x: &Val, out: &mut Vec<Val>) {
    out.push(x.clone());
    out.push(Val::Struct(vec![(1, Val::I8(1)), (2, x.clone()), (3, Val::I8(2))]));
    out.push(Val::List(x.ty(), vec![x.clone(), x.clone(), x.clone()]));
    out.push(Val::Map(x.ty(), T::I8, vec![(x.clone(), Val::I8(1))]));
    out.push(Val::Map(T::I8, x.ty(), vec![(Val::I8(1), x.clone())]));
}

/// All values of one scalar alphabet (tier dependent).
pub fn scalar_alphabet(thorough: bool) -> Vec<Val> {
    let mut v = Vec::new();
    v.push(Val::Bool(true));
    v.push(Val::Bool(false));
    for i in i8::MIN..=i8::MAX {
        v.push(Val::I8(i));
    }
    if thorough {
        for i in i16::MIN..=i16::MAX {
            v.push(Val::I16(i));
        }
    } else {
        for i in int_boundaries(16) {
            v.push(Val::I16(i as i16));
        }
        // every 2-byte/3-byte varint boundary neighbourhood
        for i in (-8300i32..=8300).step_by(1) {
            if (i.abs() >= 60 && i.abs() <= 70) || (i.abs() >= 8185 && i.abs() <= 8200) {
                v.push(Val::I16(i as i16));
            }
        }
    }
    for i in int_boundaries(32) {
        v.push(Val::I32(i as i32));
    }
    for i in int_boundaries(64) {
        v.push(Val::I64(i));
    }
    for d in double_alphabet() {
        v.push(Val::Double(d));
    }
    let lens: &[usize] = if thorough { &BIN_LENS_THOROUGH } else { &BIN_LENS_QUICK };
    for &n in lens {
        v.push(Val::Bin(bin_of_len(n)));
    }
    v.push(Val::Uuid([0; 16]));
    v.push(Val::Uuid([0xff; 16]));
    v.push(rep_leaf(T::Uuid));
    v
}

/// Neighbour pairs: struct {id1: leafA, id2: leafB} for all ordered id pairs of `ID_SET` (id1 !=
/// id2) and all ordered pairs of leaf kinds (bool with both truth values).
pub fn neighbour_pairs(out: &mut Vec<Val>) {
    let mut ls = leaves();
    ls.push(Val::Bool(false));
    for &a in ID_SET.iter() {
        for &b in ID_SET.iter() {
            if a == b {
                continue;
            }
            for x in &ls {
                for y in &ls {
                    out.push(Val::Struct(vec![(a, x.clone()), (b, y.clone())]));
                }
            }
        }
    }
}

/// Nested-struct id patterns: outer {a: inner{c: leaf}, b: leaf} — the sibling after a nested
/// struct must get its id from the *outer* context.
pub fn nested_id_patterns(out: &mut Vec<Val>) {
    let ids: [i16; 7] = [-1, 1, 2, 15, 16, 17, 300];
    for &a in &ids {
        for &b in &ids {
            if a == b {
                continue;
            }
            for &c in &ids {
                for leaf in [Val::I32(5), Val::Bool(true), Val::Bool(false)] {
                    out.push(Val::Struct(vec![
                        (a, Val::Struct(vec![(c, leaf.clone())])),
                        (b, leaf.clone()),
                    ]));
                    out.push(Val::Struct(vec![
                        (a, Val::List(T::Struct, vec![Val::Struct(vec![(c, leaf.clone())])])),
                        (b, leaf.clone()),
                    ]));
                }
            }
        }
    }
}

/// Struct nested `d` levels deep (d counts values entered, the leaf included: d=1 is a bare i32).
pub fn nested_struct(d: usize) -> Val {
    let mut v = Val::I32(1);
    for _ in 1..d {
        v = Val::Struct(vec![(1, v)]);
    }
    v
}

pub fn nested_list(d: usize) -> Val {
    let mut v = Val::I32(1);
    for _ in 1..d {
        v = Val::List(v.ty(), vec![v]);
    }
    v
}

pub fn nested_map(d: usize) -> Val {
    let mut v = Val::I32(1);
    for _ in 1..d {
        v = Val::Map(T::I8, v.ty(), vec![(Val::I8(1), v)]);
    }
    v
}

//! Deviation-bounded stateless explorer (the "choice 0 is the default answer" DFS of DESIGN §1.1).

pub struct Ctx {
    prefix: Vec<usize>,
    /// (choice taken, arity) for every choice point of the current execution
    pub trace: Vec<(usize, usize)>,
}

impl Ctx {
    pub fn new(prefix: Vec<usize>) -> Self {
        Ctx { prefix, trace: Vec::new() }
    }
    /// Replays the prefix, then answers 0. A prefix choice that is out of range for the arity met
    /// during replay is a hard error (the execution diverged from the recorded one).
    pub fn choose(&mut self, n: usize) -> usize {
        assert!(n >= 1);
        let i = self.trace.len();
        let c = if i < self.prefix.len() {
            let c = self.prefix[i];
            if c >= n {
                panic!("MACHINERY: replay divergence at choice point {}: recorded {} but arity {}", i, c, n);
            }
            c
        } else {
            0
        };
        self.trace.push((c, n));
        c
    }
    pub fn choices(&self) -> Vec<usize> {
        self.trace.iter().map(|x| x.0).collect()
    }
    pub fn deviations(&self) -> usize {
        self.trace.iter().filter(|x| x.0 != 0).count()
    }
}

#[derive(Default, Debug, Clone)]
pub struct ExploreStats {
    pub runs: u64,
    pub max_points: usize,
    pub capped: bool,
}

/// Runs `body` for every choice vector with at most `bound` non-default choices.
/// `max_runs` caps the number of executions (reported through `capped`).
pub fn explore(bound: usize, max_runs: u64, mut body: impl FnMut(&mut Ctx)) -> ExploreStats {
    let mut st = ExploreStats::default();
    let mut stack: Vec<Vec<usize>> = vec![vec![]];
    while let Some(prefix) = stack.pop() {
        if st.runs >= max_runs {
            st.capped = true;
            break;
        }
        let plen = prefix.len();
        let mut ctx = Ctx::new(prefix);
        body(&mut ctx);
        st.runs += 1;
        if ctx.trace.len() < plen {
            panic!("MACHINERY: execution shorter than its replay prefix");
        }
        st.max_points = st.max_points.max(ctx.trace.len());
        // children: deviate at every later point
        let mut devs = ctx.trace[..plen].iter().filter(|x| x.0 != 0).count();
        let mut children = Vec::new();
        for i in plen..ctx.trace.len() {
            debug_assert_eq!(ctx.trace[i].0, 0);
            if devs < bound {
                for alt in 1..ctx.trace[i].1 {
                    let mut p: Vec<usize> = ctx.trace[..i].iter().map(|x| x.0).collect();
                    p.push(alt);
                    children.push(p);
                }
            }
            if ctx.trace[i].0 != 0 {
                devs += 1;
            }
        }
        // push in reverse so that the earliest deviation is explored first
        while let Some(c) = children.pop() {
            stack.push(c);
        }
    }
    st
}

/// Exhaustive enumeration (no deviation bound).
pub fn explore_all(max_runs: u64, body: impl FnMut(&mut Ctx)) -> ExploreStats {
    explore(usize::MAX, max_runs, body)
}

#[cfg(test)]
mod tests {
    use super::*;
    #[test]
    fn counts() {
        // 3 binary points: bound 0 -> 1 run, bound 1 -> 4, bound 2 -> 7, all -> 8
        for (b, want) in [(0usize, 1u64), (1, 4), (2, 7), (3, 8)] {
            let mut seen = std::collections::BTreeSet::new();
            let st = explore(b, 1000, |c| {
                let v = vec![c.choose(2), c.choose(2), c.choose(2)];
                assert!(seen.insert(v));
            });
            assert_eq!(st.runs, want);
        }
    }
}

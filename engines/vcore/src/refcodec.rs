//! Reference Thrift codecs written from the Apache protocol specifications (binary, compact) and
//! from the description of pilota's little-endian binary variant. Shares no code with pilota.

use crate::val::{Val, T};

#[derive(Clone, Copy, Debug, PartialEq, Eq, Hash, serde::Serialize, serde::Deserialize)]
pub enum Proto {
    Binary,
    BinaryLe,
    Compact,
}

impl Proto {
    pub fn name(self) -> &'static str {
        match self {
            Proto::Binary => "binary",
            Proto::BinaryLe => "binary_le",
            Proto::Compact => "compact",
        }
    }
}

/// What an annotated byte range of an encoding means (used by the fault enumerators).
#[derive(Clone, Copy, Debug, PartialEq, Eq, Hash)]
pub enum PosKind {
    /// length of a binary/string
    BinLen,
    /// element count of list/set/map
    Count,
    /// field id
    FieldId,
    /// field type byte (binary) or type nibble byte (compact)
    FieldType,
    /// element / key / value type byte
    ElemType,
}

#[derive(Clone, Copy, Debug)]
pub struct Ann {
    pub off: usize,
    pub len: usize,
    pub kind: PosKind,
}

/// Choice points of the encoder: every place where the specification allows more than one
/// encoding of the same value.
#[derive(Clone, Copy, Debug, PartialEq, Eq)]
pub enum Choice {
    /// compact: field header could use the short (delta) form; option 1 = use the long form
    LongFieldHeader,
    /// binary: byte used for `true`; options index BOOL_TRUE_BYTES
    BoolTrueByte,
    /// compact: element type nibble for bool containers: option 0 => 1, option 1 => 2
    CompactBoolElemType,
}

pub const BOOL_TRUE_BYTES: [u8; 6] = [1, 2, 0x7f, 0x80, 0xfe, 0xff];

impl Choice {
    pub fn arity(self) -> usize {
        match self {
            Choice::LongFieldHeader => 2,
            Choice::BoolTrueByte => BOOL_TRUE_BYTES.len(),
            Choice::CompactBoolElemType => 2,
        }
    }
}

pub struct Enc<'a> {
    pub proto: Proto,
    pub out: Vec<u8>,
    pub ann: Vec<Ann>,
    chooser: Option<&'a mut dyn FnMut(Choice) -> usize>,
    // compact
    last_id: Vec<i16>,
}

fn zigzag32(n: i32) -> u32 {
    ((n << 1) ^ (n >> 31)) as u32
}
fn zigzag64(n: i64) -> u64 {
    ((n << 1) ^ (n >> 63)) as u64
}
fn unzigzag64(n: u64) -> i64 {
    ((n >> 1) as i64) ^ -((n & 1) as i64)
}

impl<'a> Enc<'a> {
    pub fn new(proto: Proto) -> Self {
        Enc { proto, out: Vec::new(), ann: Vec::new(), chooser: None, last_id: vec![] }
    }
    pub fn with_chooser(proto: Proto, c: &'a mut dyn FnMut(Choice) -> usize) -> Self {
        Enc { proto, out: Vec::new(), ann: Vec::new(), chooser: Some(c), last_id: vec![] }
    }
    fn choose(&mut self, c: Choice) -> usize {
        match self.chooser.as_mut() {
            Some(f) => f(c),
            None => 0,
        }
    }
    fn mark(&mut self, off: usize, kind: PosKind) {
        let len = self.out.len() - off;
        self.ann.push(Ann { off, len, kind });
    }
    pub fn varint(&mut self, mut n: u64) {
        loop {
            let b = (n & 0x7f) as u8;
            n >>= 7;
            if n == 0 {
                self.out.push(b);
                break;
            } else {
                self.out.push(b | 0x80);
            }
        }
    }
    fn i16(&mut self, v: i16) {
        match self.proto {
            Proto::Binary => self.out.extend_from_slice(&v.to_be_bytes()),
            Proto::BinaryLe => self.out.extend_from_slice(&v.to_le_bytes()),
            Proto::Compact => self.varint(zigzag32(v as i32) as u64),
        }
    }
    fn i32(&mut self, v: i32) {
        match self.proto {
            Proto::Binary => self.out.extend_from_slice(&v.to_be_bytes()),
            Proto::BinaryLe => self.out.extend_from_slice(&v.to_le_bytes()),
            Proto::Compact => self.varint(zigzag32(v) as u64),
        }
    }
    fn i64(&mut self, v: i64) {
        match self.proto {
            Proto::Binary => self.out.extend_from_slice(&v.to_be_bytes()),
            Proto::BinaryLe => self.out.extend_from_slice(&v.to_le_bytes()),
            Proto::Compact => self.varint(zigzag64(v)),
        }
    }
    fn len_prefix(&mut self, n: usize, kind: PosKind) {
        let off = self.out.len();
        match self.proto {
            Proto::Binary => self.out.extend_from_slice(&(n as i32).to_be_bytes()),
            Proto::BinaryLe => self.out.extend_from_slice(&(n as i32).to_le_bytes()),
            Proto::Compact => self.varint(n as u64),
        }
        self.mark(off, kind);
    }
    fn coll_begin(&mut self, t: T, n: usize) {
        match self.proto {
            Proto::Binary | Proto::BinaryLe => {
                let off = self.out.len();
                self.out.push(t as u8);
                self.mark(off, PosKind::ElemType);
                self.len_prefix(n, PosKind::Count);
            }
            Proto::Compact => {
                let mut tc = t.compact();
                if t == T::Bool && self.choose(Choice::CompactBoolElemType) == 1 {
                    tc = 2;
                }
                let off = self.out.len();
                if n < 15 {
                    self.out.push(((n as u8) << 4) | tc);
                    self.mark(off, PosKind::ElemType);
                } else {
                    self.out.push(0xf0 | tc);
                    self.mark(off, PosKind::ElemType);
                    let off = self.out.len();
                    self.varint(n as u64);
                    self.mark(off, PosKind::Count);
                }
            }
        }
    }
    /// value in "element" position (top level, container element, after a field header)
    pub fn value(&mut self, v: &Val) {
        match v {
            Val::Bool(b) => match self.proto {
                Proto::Binary | Proto::BinaryLe => {
                    let byte = if *b { BOOL_TRUE_BYTES[self.choose(Choice::BoolTrueByte)] } else { 0 };
                    self.out.push(byte)
                }
                Proto::Compact => self.out.push(if *b { 1 } else { 2 }),
            },
            Val::I8(x) => self.out.push(*x as u8),
            Val::I16(x) => self.i16(*x),
            Val::I32(x) => self.i32(*x),
            Val::I64(x) => self.i64(*x),
            Val::Double(bits) => match self.proto {
                Proto::Binary => self.out.extend_from_slice(&bits.to_be_bytes()),
                // the compact protocol stores doubles little-endian (see the compact spec: "an
                // early implementation bug that became the de-facto standard")
                Proto::BinaryLe | Proto::Compact => self.out.extend_from_slice(&bits.to_le_bytes()),
            },
            Val::Bin(b) => {
                self.len_prefix(b.len(), PosKind::BinLen);
                self.out.extend_from_slice(b);
            }
            Val::Uuid(u) => self.out.extend_from_slice(u),
            Val::Struct(fields) => {
                self.last_id.push(0);
                for (id, fv) in fields {
                    self.field(*id, fv);
                }
                self.out.push(0);
                self.last_id.pop();
            }
            Val::List(t, e) | Val::Set(t, e) => {
                self.coll_begin(*t, e.len());
                for x in e {
                    self.value(x);
                }
            }
            Val::Map(k, vt, e) => match self.proto {
                Proto::Binary | Proto::BinaryLe => {
                    let off = self.out.len();
                    self.out.push(*k as u8);
                    self.mark(off, PosKind::ElemType);
                    let off = self.out.len();
                    self.out.push(*vt as u8);
                    self.mark(off, PosKind::ElemType);
                    self.len_prefix(e.len(), PosKind::Count);
                    for (a, b) in e {
                        self.value(a);
                        self.value(b);
                    }
                }
                Proto::Compact => {
                    if e.is_empty() {
                        let off = self.out.len();
                        self.out.push(0);
                        self.mark(off, PosKind::Count);
                    } else {
                        self.len_prefix(e.len(), PosKind::Count);
                        let off = self.out.len();
                        self.out.push((k.compact() << 4) | vt.compact());
                        self.mark(off, PosKind::ElemType);
                        for (a, b) in e {
                            self.value(a);
                            self.value(b);
                        }
                    }
                }
            },
        }
    }
    fn field(&mut self, id: i16, v: &Val) {
        match self.proto {
            Proto::Binary | Proto::BinaryLe => {
                let off = self.out.len();
                self.out.push(v.ty() as u8);
                self.mark(off, PosKind::FieldType);
                let off = self.out.len();
                if self.proto == Proto::Binary {
                    self.out.extend_from_slice(&id.to_be_bytes());
                } else {
                    self.out.extend_from_slice(&id.to_le_bytes());
                }
                self.mark(off, PosKind::FieldId);
                self.value(v);
            }
            Proto::Compact => {
                let tc = match v {
                    Val::Bool(true) => 1,
                    Val::Bool(false) => 2,
                    other => other.ty().compact(),
                };
                let last = *self.last_id.last().unwrap();
                let delta = id as i32 - last as i32;
                let mut long = !(delta > 0 && delta <= 15);
                if !long && self.choose(Choice::LongFieldHeader) == 1 {
                    long = true;
                }
                let off = self.out.len();
                if long {
                    self.out.push(tc);
                    self.mark(off, PosKind::FieldType);
                    let off = self.out.len();
                    self.varint(zigzag32(id as i32) as u64);
                    self.mark(off, PosKind::FieldId);
                } else {
                    self.out.push(((delta as u8) << 4) | tc);
                    self.mark(off, PosKind::FieldType);
                }
                *self.last_id.last_mut().unwrap() = id;
                if !matches!(v, Val::Bool(_)) {
                    self.value(v);
                }
            }
        }
    }
}

pub fn encode(proto: Proto, v: &Val) -> Vec<u8> {
    let mut e = Enc::new(proto);
    e.value(v);
    e.out
}

pub fn encode_ann(proto: Proto, v: &Val) -> (Vec<u8>, Vec<Ann>) {
    let mut e = Enc::new(proto);
    e.value(v);
    (e.out, e.ann)
}

// ------------------------------------------------------------------------------------------
// strict decoder

#[derive(Debug, Clone, PartialEq, Eq)]
pub enum DecErr {
    Eof,
    BadType(u8),
    BadBool(u8),
    BadVarint,
    NegativeLen,
    TooDeep,
    Header(&'static str),
}

pub struct Dec<'a> {
    pub proto: Proto,
    pub b: &'a [u8],
    pub pos: usize,
    last_id: Vec<i16>,
    /// accept any non-zero byte as `true` in the binary protocols (the specification's reading
    /// rule); compact bool elements accept exactly 1 and 2.
    pub lenient_bool: bool,
}

impl<'a> Dec<'a> {
    pub fn new(proto: Proto, b: &'a [u8]) -> Self {
        Dec { proto, b, pos: 0, last_id: vec![], lenient_bool: true }
    }
    fn take(&mut self, n: usize) -> Result<&'a [u8], DecErr> {
        if self.b.len() - self.pos < n {
            return Err(DecErr::Eof);
        }
        let s = &self.b[self.pos..self.pos + n];
        self.pos += n;
        Ok(s)
    }
    fn u8(&mut self) -> Result<u8, DecErr> {
        Ok(self.take(1)?[0])
    }
    pub fn varint(&mut self, max_bytes: usize) -> Result<u64, DecErr> {
        let mut r: u64 = 0;
        for i in 0..max_bytes {
            let b = self.u8()?;
            r |= ((b & 0x7f) as u64) << (7 * i);
            if b & 0x80 == 0 {
                return Ok(r);
            }
        }
        Err(DecErr::BadVarint)
    }
    fn i16(&mut self) -> Result<i16, DecErr> {
        Ok(match self.proto {
            Proto::Binary => i16::from_be_bytes(self.take(2)?.try_into().unwrap()),
            Proto::BinaryLe => i16::from_le_bytes(self.take(2)?.try_into().unwrap()),
            Proto::Compact => unzigzag64(self.varint(3)?) as i16,
        })
    }
    fn i32(&mut self) -> Result<i32, DecErr> {
        Ok(match self.proto {
            Proto::Binary => i32::from_be_bytes(self.take(4)?.try_into().unwrap()),
            Proto::BinaryLe => i32::from_le_bytes(self.take(4)?.try_into().unwrap()),
            Proto::Compact => unzigzag64(self.varint(5)?) as i32,
        })
    }
    fn i64(&mut self) -> Result<i64, DecErr> {
        Ok(match self.proto {
            Proto::Binary => i64::from_be_bytes(self.take(8)?.try_into().unwrap()),
            Proto::BinaryLe => i64::from_le_bytes(self.take(8)?.try_into().unwrap()),
            Proto::Compact => unzigzag64(self.varint(10)?),
        })
    }
    fn size(&mut self) -> Result<usize, DecErr> {
        match self.proto {
            Proto::Binary | Proto::BinaryLe => {
                let n = self.i32_fixed()?;
                if n < 0 {
                    return Err(DecErr::NegativeLen);
                }
                Ok(n as usize)
            }
            Proto::Compact => {
                let n = self.varint(5)?;
                if n > i32::MAX as u64 {
                    return Err(DecErr::NegativeLen);
                }
                Ok(n as usize)
            }
        }
    }
    fn i32_fixed(&mut self) -> Result<i32, DecErr> {
        Ok(match self.proto {
            Proto::BinaryLe => i32::from_le_bytes(self.take(4)?.try_into().unwrap()),
            _ => i32::from_be_bytes(self.take(4)?.try_into().unwrap()),
        })
    }
    fn ttype(&mut self, b: u8) -> Result<T, DecErr> {
        match self.proto {
            Proto::Binary | Proto::BinaryLe => T::from_u8(b).ok_or(DecErr::BadType(b)),
            Proto::Compact => T::from_compact(b).ok_or(DecErr::BadType(b)),
        }
    }
    pub fn value(&mut self, t: T, depth: usize) -> Result<Val, DecErr> {
        if depth > 200 {
            return Err(DecErr::TooDeep);
        }
        Ok(match t {
            T::Bool => {
                let b = self.u8()?;
                match self.proto {
                    Proto::Binary | Proto::BinaryLe => {
                        if b == 0 {
                            Val::Bool(false)
                        } else if b == 1 || self.lenient_bool {
                            Val::Bool(true)
                        } else {
                            return Err(DecErr::BadBool(b));
                        }
                    }
                    Proto::Compact => match b {
                        1 => Val::Bool(true),
                        2 => Val::Bool(false),
                        _ => return Err(DecErr::BadBool(b)),
                    },
                }
            }
            T::I8 => Val::I8(self.u8()? as i8),
            T::I16 => Val::I16(self.i16()?),
            T::I32 => Val::I32(self.i32()?),
            T::I64 => Val::I64(self.i64()?),
            T::Double => {
                let s: [u8; 8] = self.take(8)?.try_into().unwrap();
                Val::Double(match self.proto {
                    Proto::Binary => u64::from_be_bytes(s),
                    _ => u64::from_le_bytes(s),
                })
            }
            T::Bin => {
                let n = self.size()?;
                Val::Bin(self.take(n)?.to_vec())
            }
            T::Uuid => Val::Uuid(self.take(16)?.try_into().unwrap()),
            T::Struct => {
                self.last_id.push(0);
                let mut fields = Vec::new();
                loop {
                    let h = self.u8()?;
                    match self.proto {
                        Proto::Binary | Proto::BinaryLe => {
                            if h == 0 {
                                break;
                            }
                            let ft = self.ttype(h)?;
                            let id = if self.proto == Proto::Binary {
                                i16::from_be_bytes(self.take(2)?.try_into().unwrap())
                            } else {
                                i16::from_le_bytes(self.take(2)?.try_into().unwrap())
                            };
                            let v = self.value(ft, depth + 1)?;
                            fields.push((id, v));
                        }
                        Proto::Compact => {
                            if h == 0 {
                                break;
                            }
                            let tn = h & 0x0f;
                            let delta = h >> 4;
                            if tn == 0 {
                                // a stop nibble with a delta is not a legal header
                                return Err(DecErr::BadType(h));
                            }
                            let ft = self.ttype(tn)?;
                            let id = if delta == 0 {
                                unzigzag64(self.varint(3)?) as i16
                            } else {
                                (*self.last_id.last().unwrap()).wrapping_add(delta as i16)
                            };
                            *self.last_id.last_mut().unwrap() = id;
                            let v = if ft == T::Bool {
                                Val::Bool(tn == 1)
                            } else {
                                self.value(ft, depth + 1)?
                            };
                            fields.push((id, v));
                        }
                    }
                }
                self.last_id.pop();
                Val::Struct(fields)
            }
            T::List | T::Set => {
                let (et, n) = match self.proto {
                    Proto::Binary | Proto::BinaryLe => {
                        let b = self.u8()?;
                        let et = self.ttype(b)?;
                        (et, self.size()?)
                    }
                    Proto::Compact => {
                        let h = self.u8()?;
                        let et = self.ttype(h & 0x0f)?;
                        let n = if h >> 4 == 15 { self.size()? } else { (h >> 4) as usize };
                        (et, n)
                    }
                };
                let mut e = Vec::new();
                for _ in 0..n {
                    e.push(self.value(et, depth + 1)?);
                }
                if t == T::List {
                    Val::List(et, e)
                } else {
                    Val::Set(et, e)
                }
            }
            T::Map => match self.proto {
                Proto::Binary | Proto::BinaryLe => {
                    let kb = self.u8()?;
                    let kt = self.ttype(kb)?;
                    let vb = self.u8()?;
                    let vt = self.ttype(vb)?;
                    let n = self.size()?;
                    let mut e = Vec::new();
                    for _ in 0..n {
                        let k = self.value(kt, depth + 1)?;
                        let v = self.value(vt, depth + 1)?;
                        e.push((k, v));
                    }
                    Val::Map(kt, vt, e)
                }
                Proto::Compact => {
                    let n = self.size()?;
                    if n == 0 {
                        // types are not on the wire: reported as (I32, I32) and compared modulo
                        // this by `eq_mod_empty_map`
                        Val::Map(T::I32, T::I32, vec![])
                    } else {
                        let h = self.u8()?;
                        let kt = self.ttype(h >> 4)?;
                        let vt = self.ttype(h & 0x0f)?;
                        let mut e = Vec::new();
                        for _ in 0..n {
                            let k = self.value(kt, depth + 1)?;
                            let v = self.value(vt, depth + 1)?;
                            e.push((k, v));
                        }
                        Val::Map(kt, vt, e)
                    }
                }
            },
        })
    }
}

pub fn decode(proto: Proto, t: T, b: &[u8]) -> Result<(Val, usize), DecErr> {
    let mut d = Dec::new(proto, b);
    let v = d.value(t, 0)?;
    Ok((v, d.pos))
}

/// Normal form under which values are compared across a compact round trip: the key/value types
/// of an *empty* map are not on the compact wire, so they are normalised to (I32, I32).
pub fn norm_empty_maps(v: &Val) -> Val {
    match v {
        Val::Map(_, _, e) if e.is_empty() => Val::Map(T::I32, T::I32, vec![]),
        Val::Map(k, vt, e) => Val::Map(
            *k,
            *vt,
            e.iter().map(|(a, b)| (norm_empty_maps(a), norm_empty_maps(b))).collect(),
        ),
        Val::Struct(f) => Val::Struct(f.iter().map(|(i, x)| (*i, norm_empty_maps(x))).collect()),
        Val::List(t, e) => Val::List(*t, e.iter().map(norm_empty_maps).collect()),
        Val::Set(t, e) => Val::Set(*t, e.iter().map(norm_empty_maps).collect()),
        x => x.clone(),
    }
}

// ------------------------------------------------------------------------------------------
// message envelopes

#[derive(Clone, Debug, PartialEq, Eq, serde::Serialize, serde::Deserialize)]
pub struct Envelope {
    pub name: Vec<u8>,
    /// 1 call, 2 reply, 3 exception, 4 oneway
    pub mtype: u8,
    pub seq: i32,
}

pub fn encode_envelope(proto: Proto, e: &Envelope) -> Vec<u8> {
    let mut o = Vec::new();
    match proto {
        Proto::Binary => {
            let ver: u32 = 0x8001_0000 | e.mtype as u32;
            o.extend_from_slice(&ver.to_be_bytes());
            o.extend_from_slice(&(e.name.len() as i32).to_be_bytes());
            o.extend_from_slice(&e.name);
            o.extend_from_slice(&e.seq.to_be_bytes());
        }
        Proto::BinaryLe => {
            let ver: u32 = 0x8888_0000 | e.mtype as u32;
            o.extend_from_slice(&ver.to_le_bytes());
            o.extend_from_slice(&(e.name.len() as i32).to_le_bytes());
            o.extend_from_slice(&e.name);
            o.extend_from_slice(&e.seq.to_le_bytes());
        }
        Proto::Compact => {
            o.push(0x82);
            o.push(1 | (e.mtype << 5));
            let mut enc = Enc::new(Proto::Compact);
            enc.varint(e.seq as u32 as u64);
            enc.varint(e.name.len() as u64);
            o.extend_from_slice(&enc.out);
            o.extend_from_slice(&e.name);
        }
    }
    o
}

pub fn decode_envelope(proto: Proto, b: &[u8]) -> Result<(Envelope, usize), DecErr> {
    let mut d = Dec::new(proto, b);
    match proto {
        Proto::Binary | Proto::BinaryLe => {
            let ver = d.i32_fixed()? as u32;
            let want = if proto == Proto::Binary { 0x8001_0000 } else { 0x8888_0000 };
            if ver & 0xffff_0000 != want {
                return Err(DecErr::Header("version"));
            }
            if ver & 0x0000_ff00 != 0 {
                return Err(DecErr::Header("reserved byte"));
            }
            let mtype = (ver & 0xff) as u8;
            if !(1..=4).contains(&mtype) {
                return Err(DecErr::Header("message type"));
            }
            let n = d.size()?;
            let name = d.take(n)?.to_vec();
            let seq = d.i32_fixed()?;
            Ok((Envelope { name, mtype, seq }, d.pos))
        }
        Proto::Compact => {
            if d.u8()? != 0x82 {
                return Err(DecErr::Header("protocol id"));
            }
            let vt = d.u8()?;
            if vt & 0x1f != 1 {
                return Err(DecErr::Header("version"));
            }
            let mtype = vt >> 5;
            if !(1..=4).contains(&mtype) {
                return Err(DecErr::Header("message type"));
            }
            let seq = d.varint(5)? as u32 as i32;
            let n = d.size()?;
            let name = d.take(n)?.to_vec();
            Ok((Envelope { name, mtype, seq }, d.pos))
        }
    }
}

// ------------------------------------------------------------------------------------------
// self checks: vectors that do not come from pilota's behaviour

pub fn self_check() -> Result<usize, String> {
    let mut n = 0;
    let mut eq = |what: &str, got: Vec<u8>, want: &[u8]| -> Result<(), String> {
        n += 1;
        if got != want {
            return Err(format!("refcodec self-check {}: got {:02x?} want {:02x?}", what, got, want));
        }
        Ok(())
    };
    // varints / zigzag (protobuf encoding guide values; the thrift compact spec uses the same)
    let mut e = Enc::new(Proto::Compact);
    e.varint(300);
    eq("varint 300", e.out, &[0xac, 0x02])?;
    let mut e = Enc::new(Proto::Compact);
    e.varint(150);
    eq("varint 150", e.out, &[0x96, 0x01])?;
    for (i, z) in [(0i32, 0u32), (-1, 1), (1, 2), (-2, 3), (2147483647, 4294967294), (-2147483648, 4294967295)] {
        if zigzag32(i) != z {
            return Err(format!("zigzag {}", i));
        }
    }
    // Apache rust lib compact tests (carried verbatim in pilota's compact.rs tests):
    // message begin "foo", Call, seq 431 => 82 21 af 03 03 66 6f 6f
    eq(
        "compact msg",
        encode_envelope(Proto::Compact, &Envelope { name: b"foo".to_vec(), mtype: 1, seq: 431 }),
        &[0x82, 0x21, 0xaf, 0x03, 0x03, 0x66, 0x6f, 0x6f],
    )?;
    // seq -1 => ff ff ff ff 0f
    eq(
        "compact msg neg seq",
        encode_envelope(Proto::Compact, &Envelope { name: b"".to_vec(), mtype: 2, seq: -1 }),
        &[0x82, 0x41, 0xff, 0xff, 0xff, 0xff, 0x0f, 0x00],
    )?;
    // struct with delta fields: {1: i8, 5: i16(via delta 4), 20: i32 long form}
    let v = Val::Struct(vec![(1, Val::I8(1)), (5, Val::I16(1)), (21, Val::I32(1))]);
    eq(
        "compact struct",
        encode(Proto::Compact, &v),
        &[0x13, 0x01, 0x44, 0x02, 0x05, 0x2a, 0x02, 0x00],
    )?;
    // bool fields: {1: true, 2: false}
    let v = Val::Struct(vec![(1, Val::Bool(true)), (2, Val::Bool(false))]);
    eq("compact bools", encode(Proto::Compact, &v), &[0x11, 0x12, 0x00])?;
    // nested: {1: {1: i8 7}, 2: i8 9}: after the nested struct the delta is relative to 1
    let v = Val::Struct(vec![(1, Val::Struct(vec![(1, Val::I8(7))])), (2, Val::I8(9))]);
    eq("compact nested", encode(Proto::Compact, &v), &[0x1c, 0x13, 0x07, 0x00, 0x13, 0x09, 0x00])?;
    // binary: struct {1: i32 1} => 08 00 01 00 00 00 01 00
    let v = Val::Struct(vec![(1, Val::I32(1))]);
    eq("binary struct", encode(Proto::Binary, &v), &[8, 0, 1, 0, 0, 0, 1, 0])?;
    eq("binary-le struct", encode(Proto::BinaryLe, &v), &[8, 1, 0, 1, 0, 0, 0, 0])?;
    // binary message: 80 01 00 01, len, name, seq
    eq(
        "binary msg",
        encode_envelope(Proto::Binary, &Envelope { name: b"ab".to_vec(), mtype: 1, seq: 7 }),
        &[0x80, 0x01, 0x00, 0x01, 0, 0, 0, 2, b'a', b'b', 0, 0, 0, 7],
    )?;
    // list<i32>[1,2] binary: 08 00000002 00000001 00000002; compact: 25 02 04
    let v = Val::List(T::I32, vec![Val::I32(1), Val::I32(2)]);
    eq("binary list", encode(Proto::Binary, &v), &[8, 0, 0, 0, 2, 0, 0, 0, 1, 0, 0, 0, 2])?;
    eq("compact list", encode(Proto::Compact, &v), &[0x25, 0x02, 0x04])?;
    // map<i8,i8>{1:2} compact: 01 33 01 02 ; empty: 00
    let v = Val::Map(T::I8, T::I8, vec![(Val::I8(1), Val::I8(2))]);
    eq("compact map", encode(Proto::Compact, &v), &[0x01, 0x33, 0x01, 0x02])?;
    eq("compact empty map", encode(Proto::Compact, &Val::Map(T::I8, T::I8, vec![])), &[0x00])?;
    // double 1.0: binary 3f f0 .., compact little-endian
    let v = Val::Double(1.0f64.to_bits());
    eq("binary double", encode(Proto::Binary, &v), &[0x3f, 0xf0, 0, 0, 0, 0, 0, 0])?;
    eq("compact double", encode(Proto::Compact, &v), &[0, 0, 0, 0, 0, 0, 0xf0, 0x3f])?;
    Ok(n)
}

/// encode∘decode = id on a slice of values, for every protocol (run by the engines at start-up
/// over the enumerated spaces they are about to use).
pub fn self_roundtrip(vals: &[Val]) -> Result<usize, String> {
    let mut n = 0;
    for v in vals {
        for p in [Proto::Binary, Proto::BinaryLe, Proto::Compact] {
            let b = encode(p, v);
            match decode(p, v.ty(), &b) {
                Ok((v2, used)) => {
                    let want = if p == Proto::Compact { norm_empty_maps(v) } else { v.clone() };
                    if v2 != want || used != b.len() {
                        return Err(format!("refcodec roundtrip {} {}", p.name(), v.show()));
                    }
                }
                Err(e) => return Err(format!("refcodec roundtrip {} {}: {:?}", p.name(), v.show(), e)),
            }
            n += 1;
        }
    }
    Ok(n)
}

// ------------------------------------------------------------------------------------------
// fault values for annotated positions (shared by the fault enumerators)

fn int_bytes(wire: Proto, width: usize, v: i64) -> Vec<u8> {
    match (wire, width) {
        (Proto::Binary, 4) => (v as i32).to_be_bytes().to_vec(),
        (Proto::BinaryLe, 4) => (v as i32).to_le_bytes().to_vec(),
        (Proto::Binary, 2) => (v as i16).to_be_bytes().to_vec(),
        (Proto::BinaryLe, 2) => (v as i16).to_le_bytes().to_vec(),
        _ => unreachable!(),
    }
}

fn varint_bytes(mut n: u64) -> Vec<u8> {
    let mut o = Vec::new();
    loop {
        let b = (n & 0x7f) as u8;
        n >>= 7;
        if n == 0 {
            o.push(b);
            break;
        }
        o.push(b | 0x80);
    }
    o
}

/// all replacement byte strings for one annotated position
pub fn fault_replacements(wire: Proto, a: &Ann, total: usize) -> Vec<Vec<u8>> {
    let rem = (total - a.off - a.len) as i64;
    let mut out = Vec::new();
    match a.kind {
        PosKind::BinLen | PosKind::Count => {
            // "huge" values: lengths get 2^31-1; element counts get 2^20 and 2^22, which are just as
            // far out of proportion but do not make a preallocating hash table spend seconds
            // initialising gigabytes (that cost belongs to a recorded finding, not to every run)
            let vals: [i64; 10] = if a.kind == PosKind::BinLen {
                [-1, 0, 1, rem - 1, rem, rem + 1, 0x7fff_ffff, 0x7fff_fff0, 0x0100_0000, -0x8000_0000]
            } else {
                [-1, 0, 1, rem - 1, rem, rem + 1, 0x0040_0000, 0x0010_0000, 0x0001_0000, -0x8000_0000]
            };
            match wire {
                Proto::Compact => {
                    if a.len == 1 && a.kind == PosKind::Count {
                        // empty-map byte or (never: short-form list header is an ElemType ann)
                    }
                    for v in vals {
                        out.push(varint_bytes(v as u32 as u64));
                    }
                    // over-long / unterminated varints
                    out.push(vec![0xff; 5]);
                    out.push(vec![0x80, 0x80, 0x80, 0x80, 0x80, 0x00]);
                    out.push(vec![0xff, 0xff, 0xff, 0xff, 0xff, 0xff, 0xff, 0xff, 0xff, 0x01]);
                    out.push(vec![0xff; 11]);
                }
                _ => {
                    for v in vals {
                        out.push(int_bytes(wire, 4, v));
                    }
                }
            }
        }
        PosKind::FieldId => {
            let vals = [-1i64, 0, 1, 32767, -32768, 255, 256];
            match wire {
                Proto::Compact => {
                    for v in vals {
                        let z = (((v as i32) << 1) ^ ((v as i32) >> 31)) as u32;
                        out.push(varint_bytes(z as u64));
                    }
                    out.push(vec![0xff; 3]);
                    out.push(vec![0xff, 0xff, 0xff, 0x7f]);
                }
                _ => {
                    for v in vals {
                        out.push(int_bytes(wire, 2, v));
                    }
                }
            }
        }
        PosKind::FieldType | PosKind::ElemType => {
            for b in [0u8, 1, 2, 5, 0x0c, 0x0d, 0x0f, 0x10, 0x11, 0x7f, 0x80, 0xf1, 0xf5, 0xfc, 0xff, 0x1c, 0x1b, 0xf9] {
                out.push(vec![b]);
            }
        }
    }
    out
}


//! C11 — unchecked binary codec equals the checked one within its contract (runtime level).

use crate::drive::*;
use crate::spaces::{self, SpaceCfg};
use bytes::Bytes;
use pilota::thrift::TInputProtocol;
use serde_json::json;
use vcore::guard::Arena;
use vcore::report::{catch, panic_sig, Args, Caught, Collector};
use vcore::val::{Val, T};

fn checked_bytes(vals: &[&Val], api: BinApi) -> Result<Vec<u8>, String> {
    let mut tr = Tracker::default();
    match catch(|| encode_vals(Prot::Binary, BufKind::BytesMut, vals, api, &mut tr, 0)) {
        Caught::Ok(Ok(e)) => Ok(e.bytes),
        Caught::Ok(Err(e)) => Err(format!("checked writer err {}", err_class(&e))),
        Caught::Panic(loc, msg) => Err(panic_sig(&loc, &msg)),
    }
}

pub fn check_case(col: &mut Collector, arena: &Arena, vals: &[&Val], apis: &[(BinApi, BinApi)], tr: &mut Tracker) {
    for &(wapi, rapi) in apis {
        let want = match checked_bytes(vals, wapi) {
            Ok(b) => b,
            Err(e) => {
                col.fail(format!("C11|checked-writer|{}", e), json!({"vals": vals}), e.clone());
                continue;
            }
        };
        let case = |buf: &str| json!({"vals": vals, "buf": buf, "wapi": wapi.name(), "rapi": rapi.name(), "show": vals.iter().map(|v| v.show()).collect::<Vec<_>>()});
        // ---- writer: exact-size window
        for buf in ALL_BUF {
            col.evaluations += 1;
            tr.reset_pos();
            let window = match catch(|| vdrive::drive::pilota_size_zc(Prot::Unsafe, vals, wapi, buf == BufKind::LinkedZc)) {
                Caught::Ok(n) => n,
                Caught::Panic(loc, msg) => {
                    col.fail(format!("C11|writer|size-{}", panic_sig(&loc, &msg)), case(buf.name()), msg);
                    continue;
                }
            };
            if window != want.len() {
                col.outcome("size-differs");
                col.fail("C11|writer|reported-size!=checked-length".into(), case(buf.name()), format!("size {} checked writer wrote {}", window, want.len()));
                continue;
            }
            match catch(|| encode_vals(Prot::Unsafe, buf, vals, wapi, tr, window)) {
                Caught::Ok(Ok(e)) => {
                    if !e.sentinel_ok {
                        col.outcome("out-of-window");
                        col.fail(format!("C11|writer/{}|wrote-outside-window", buf.name()), case(buf.name()), format!("window {}", window));
                    } else if e.bytes != want {
                        col.outcome("bytes-differ");
                        let at = e.bytes.iter().zip(want.iter()).position(|(a, b)| a != b).unwrap_or(e.bytes.len().min(want.len()));
                        col.fail(
                            format!("C11|writer/{}|bytes-differ-from-checked", buf.name()),
                            case(buf.name()),
                            format!("len {} vs {}, first difference at {}", e.bytes.len(), want.len(), at),
                        );
                    } else if e.accounted != window {
                        col.outcome("accounting");
                        col.fail(format!("C11|writer/{}|accounted!=size", buf.name()), case(buf.name()), format!("{} vs {}", e.accounted, window));
                    } else {
                        col.outcome(if e.zc_len > 0 { "ok-writer-zero-copy" } else { "ok-writer" });
                    }
                }
                Caught::Ok(Err(e)) => col.fail(format!("C11|writer/{}|err", buf.name()), case(buf.name()), format!("{:?}", e)),
                Caught::Panic(loc, msg) => {
                    col.outcome("writer-panic");
                    col.fail(format!("C11|writer/{}|{}", buf.name(), panic_sig(&loc, &msg)), case(buf.name()), msg)
                }
            }
        }
        // ---- reader: checked bytes against a guard page
        let tys: Vec<T> = vals.iter().map(|v| v.ty()).collect();
        for genlike in [false, true] {
            col.evaluations += 1;
            tr.reset_pos();
            let input = Bytes::from_static(arena.place(&want));
            let checked = {
                let mut t2 = Tracker::default();
                decode_vals(Prot::Binary, Bytes::from(want.clone()), &tys, rapi, genlike, &mut t2)
            };
            match catch(|| decode_vals(Prot::Unsafe, input, &tys, rapi, genlike, tr)) {
                Caught::Ok(o) => {
                    let a: Vec<Option<Val>> = o.vals.iter().map(|r| r.as_ref().ok().cloned()).collect();
                    let b: Vec<Option<Val>> = checked.vals.iter().map(|r| r.as_ref().ok().cloned()).collect();
                    if a != b {
                        col.outcome("reader-differs");
                        col.fail("C11|reader|value-differs-from-checked".into(), case("guard"), format!("unchecked {:?} checked {:?}", a.iter().map(|x| x.as_ref().map(|v| v.show())).collect::<Vec<_>>(), b.iter().map(|x| x.as_ref().map(|v| v.show())).collect::<Vec<_>>()));
                    } else if o.remaining != checked.remaining {
                        col.outcome("reader-consumed");
                        col.fail("C11|reader|consumed-differs-from-checked".into(), case("guard"), format!("remaining {} vs {}", o.remaining as isize, checked.remaining));
                    } else {
                        col.outcome("ok-reader");
                    }
                }
                Caught::Panic(loc, msg) => {
                    col.outcome("reader-panic");
                    col.fail(format!("C11|reader|{}", panic_sig(&loc, &msg)), case("guard"), msg)
                }
            }
        }
        // ---- skip of the last field of a struct whose encoding ends at the guard page
        if vals.len() == 1 {
            col.evaluations += 1;
            let outer = Val::Struct(vec![(1, Val::I8(3)), (9, vals[0].clone())]);
            let enc = vcore::refcodec::encode(vcore::refcodec::Proto::Binary, &outer);
            let vlen = vcore::refcodec::encode(vcore::refcodec::Proto::Binary, vals[0]).len();
            let mut input = Bytes::from_static(arena.place(&enc));
            let r = catch(|| -> Result<(usize, bool), pilota::thrift::ThriftException> {
                let mut p = unsafe { pilota::thrift::binary_unsafe::TBinaryUnsafeInputProtocol::new(&mut input) };
                p.read_struct_begin()?;
                let f = p.read_field_begin()?;
                let _ = f;
                p.read_i8()?;
                p.read_field_end()?;
                let f2 = p.read_field_begin()?;
                let n = p.skip(f2.field_type)?;
                p.read_field_end()?;
                let f3 = p.read_field_begin()?;
                Ok((n, f3.field_type == pilota::thrift::TType::Stop))
            });
            match r {
                Caught::Ok(Ok((n, stop))) if n == vlen && stop => col.outcome("ok-skip-at-guard"),
                Caught::Ok(Ok((n, stop))) => col.fail(
                    format!("C11|skip|wrong:{}", vals[0].ty().short()),
                    case("guard"),
                    format!("skip returned {} (value is {} bytes), stop seen: {}", n, vlen, stop),
                ),
                Caught::Ok(Err(e)) => col.fail(format!("C11|skip|err:{}", vals[0].ty().short()), case("guard"), format!("{:?}", e)),
                Caught::Panic(loc, msg) => col.fail(format!("C11|skip|{}", panic_sig(&loc, &msg)), case("guard"), msg),
            }
        }
    }
}

pub fn run(a: &Args) {
    let mut col = Collector::new("C11", a);
    let mut tr = Tracker::new();
    let cfg = SpaceCfg { thorough: a.thorough() };
    let th = cfg.thorough;
    let arena = Arena::new(8 << 20);
    spaces::all_values(&cfg, &mut |space, v| {
        if col.next_case(space) {
            if crate::c01::nontrivial(&[v]) {
                col.nontrivial += 1;
            }
            if col.samples.len() < 3 || (col.samples.len() < 12 && col.cur_index() % 9973 == 0) {
                col.sample(json!(v.show()));
            }
            let apis = crate::c01::apis(&[v], th);
            check_case(&mut col, &arena, &[v], &apis, &mut tr);
        }
    });
    spaces::space_histories(&cfg, &mut |space, vs| {
        if col.next_case(space) {
            col.nontrivial += 1;
            let apis = crate::c01::apis(vs, th);
            check_case(&mut col, &arena, vs, &apis, &mut tr);
        }
    });
    // element counts across the 16-bit boundary: one API pair is enough (the counters of the
    // iterative skipper and of the container readers are what matters)
    let big_arena = Arena::new(16 << 20);
    spaces::space_large(&cfg, &mut |space, v| {
        if col.next_case(space) {
            col.nontrivial += 1;
            let apis = crate::c01::apis(&[v], false);
            check_case(&mut col, &big_arena, &[v], &apis[..1], &mut tr);
        }
    });
    col.states = tr.states.clone();
    col.transitions = tr.transitions.clone();
    col.finish(&a.out);
}

pub fn replay(case: &serde_json::Value) -> Vec<(String, String)> {
    let mut a = Args::parse();
    a.progress = None;
    let mut col = Collector::new("C11", &a);
    col.index = 1;
    let vals: Vec<Val> = serde_json::from_value(case["vals"].clone()).expect("vals");
    let refs: Vec<&Val> = vals.iter().collect();
    let arena = Arena::new(8 << 20);
    let mut tr = Tracker::new();
    let apis = [(BinApi::from_name(case["wapi"].as_str().unwrap()), BinApi::from_name(case["rapi"].as_str().unwrap()))];
    check_case(&mut col, &arena, &refs, &apis, &mut tr);
    col.failures.iter().map(|(s, g)| (s.clone(), g.detail.clone())).collect()
}

//! The enumerated value spaces shared by the runtime-level Thrift checks (DESIGN §3 C01 (a)-(d)).

use vcore::val::{self, Val, T};

pub struct SpaceCfg {
    pub thorough: bool,
}

/// depth-1 shapes (full product over the leaves, widths 0..=2 (3 in thorough), container lengths
/// {0,1,2,14,15,16})
pub fn d1(thorough: bool) -> Vec<Val> {
    let mut out = Vec::new();
    val::shapes(1, if thorough { 3 } else { 2 }, &[1, 2, 14, 15, 16], &mut out);
    out
}

/// (a) shapes: every depth-<=2 shape (full product over depth-1 shapes for struct width <= 2, all
/// list/set element shapes with 1 and 2 elements, all map key x value shape pairs); in the
/// thorough tier additionally every depth-2 shape wrapped once more in each container position
/// (depth 3).
pub fn space_shapes(c: &SpaceCfg, f: &mut dyn FnMut(&str, &Val)) {
    let d1 = d1(c.thorough);
    for v in &d1 {
        f("a:shape-d1", v);
    }
    // depth 2: compose over a depth-1 basis. The basis for the *product* positions (struct with
    // two fields, map key x value) is the width-<=2 depth-1 set to keep the product finite and
    // small; single positions use all of d1.
    let mut basis = Vec::new();
    val::shapes(1, 2, &[1, 2], &mut basis);
    let mut d2 = Vec::new();
    val::compose(&basis, 2, &[1, 2], &mut d2);
    for v in &d2 {
        if v.depth() == 2 {
            f("a:shape-d2", v);
        }
    }
    for v in &d1 {
        // d1 elements not in basis (width 3, long containers) in single positions
        let mut w = Vec::new();
        val::wrap_all(v, &mut w);
        for x in &w {
            f("a:shape-d2w", x);
        }
    }
    if !c.thorough {
        // depth 3, narrow: every depth-2 shape that has exactly one child (struct of one field,
        // container of one element / entry) wrapped once more in each container position
        let mut w = Vec::new();
        for v in &d2 {
            let narrow = match v {
                Val::Struct(f) => f.len() == 1,
                Val::List(_, e) | Val::Set(_, e) => e.len() == 1,
                Val::Map(_, _, e) => e.len() == 1,
                _ => false,
            };
            if narrow && v.depth() == 2 {
                w.clear();
                val::wrap_all(v, &mut w);
                for x in &w {
                    f("a:shape-d3-narrow", x);
                }
            }
        }
    }
    if c.thorough {
        let mut w = Vec::new();
        for v in &d2 {
            if v.depth() == 2 {
                w.clear();
                val::wrap_all(v, &mut w);
                for x in &w {
                    f("a:shape-d3", x);
                }
            }
        }
    }
}

/// (b) scalar sweeps in every context
pub fn space_scalars(c: &SpaceCfg, f: &mut dyn FnMut(&str, &Val)) {
    let mut ctx = Vec::new();
    for s in val::scalar_alphabet(c.thorough) {
        ctx.clear();
        // the 2 MiB payload only at top level and as a field (keeps the sweep fast)
        if matches!(&s, Val::Bin(b) if b.len() > 100_000) {
            ctx.push(s.clone());
            ctx.push(Val::Struct(vec![(1, s.clone())]));
        } else {
            val::contexts(&s, &mut ctx);
        }
        for x in &ctx {
            f("b:scalar", x);
        }
    }
}

/// (c) neighbour pairs and nested id patterns
pub fn space_neighbours(_c: &SpaceCfg, f: &mut dyn FnMut(&str, &Val)) {
    let mut v = Vec::new();
    val::neighbour_pairs(&mut v);
    for x in &v {
        f("c:neighbour", x);
    }
    v.clear();
    val::nested_id_patterns(&mut v);
    for x in &v {
        f("c:nested-ids", x);
    }
}

/// (d) histories: ordered pairs (and triples in thorough) of depth-<=1 shapes written back to
/// back through one writer and read through one reader.
pub fn space_histories(c: &SpaceCfg, f: &mut dyn FnMut(&str, &[&Val])) {
    let mut basis = Vec::new();
    val::shapes(1, 2, &[1, 2], &mut basis);
    // keep structs (field-id state), bool containers and leaves; drop most map products
    let hist: Vec<&Val> = basis
        .iter()
        .filter(|v| match v {
            Val::Map(_, _, e) => e.len() == 1,
            Val::List(_, e) | Val::Set(_, e) => e.len() <= 1,
            _ => true,
        })
        .collect();
    let small: Vec<&Val> = if c.thorough {
        hist.clone()
    } else {
        // quick: pairs over a reduced basis (leaves, structs of width<=1, one-element containers
        // of bool/i32/struct kind)
        hist.iter()
            .copied()
            .filter(|v| match v {
                Val::Struct(fs) => fs.len() <= 1 || matches!(fs[0].1, Val::Bool(_) | Val::I32(_)),
                Val::Map(k, vt, _) => {
                    matches!(k, T::I32 | T::Bool) && matches!(vt, T::I32 | T::Bool | T::Bin)
                }
                Val::List(t, _) | Val::Set(t, _) => matches!(t, T::I32 | T::Bool | T::Bin | T::Struct),
                _ => true,
            })
            .collect()
    };
    for a in &small {
        for b in &small {
            f("d:pair", &[a, b]);
        }
    }
    if c.thorough {
        let tiny: Vec<&Val> = hist
            .iter()
            .copied()
            .filter(|v| match v {
                Val::Struct(fs) => fs.len() <= 1,
                Val::Map(..) | Val::List(..) | Val::Set(..) => false,
                _ => true,
            })
            .collect();
        for a in &tiny {
            for b in &tiny {
                for cc in &tiny {
                    f("d:triple", &[a, b, cc]);
                }
            }
        }
    }
}

/// (e) containers whose element count crosses the 16-bit boundary (variable-size elements, so
/// that no fixed-width fast path hides a counter): lists / sets of 65535, 65536, 65537 one-byte
/// strings and empty structs, maps of 32767, 32768, 32769 entries, top level and as a field
pub fn space_large(c: &SpaceCfg, f: &mut dyn FnMut(&str, &Val)) {
    let counts: &[usize] = if c.thorough { &[65535, 65536, 65537, 70000, 131073] } else { &[65535, 65536, 65537] };
    for &n in counts {
        let strs: Vec<Val> = (0..n).map(|i| Val::Bin(vec![b'a' + (i % 26) as u8])).collect();
        let vals = [
            Val::List(T::Bin, strs.clone()),
            Val::Set(T::Bin, strs.clone()),
            Val::List(T::Struct, (0..n).map(|_| Val::Struct(vec![])).collect()),
            Val::List(T::List, (0..n).map(|_| Val::List(T::I8, vec![])).collect()),
        ];
        for v in &vals {
            f("e:large-container", v);
            f("e:large-container", &Val::Struct(vec![(1, v.clone()), (2, Val::I32(7))]));
        }
    }
    let mcounts: &[usize] = if c.thorough { &[32767, 32768, 32769, 65537] } else { &[32767, 32768, 32769] };
    for &n in mcounts {
        let m = Val::Map(T::I32, T::Bin, (0..n).map(|i| (Val::I32(i as i32), Val::Bin(vec![b'v']))).collect());
        f("e:large-container", &m);
        f("e:large-container", &Val::Struct(vec![(1, m.clone()), (2, Val::I32(7))]));
    }
}

/// (f) element counts at the boundaries of the varint / zigzag-varint widths (a count sized with
/// the wrong one of the two is off by one byte exactly there): 63, 64, 127, 128 [8191, 8192,
/// 16383, 16384] elements or entries, bare and as a field
pub fn space_counts(c: &SpaceCfg, f: &mut dyn FnMut(&str, &Val)) {
    let counts: &[usize] = if c.thorough { &[63, 64, 127, 128, 8191, 8192, 16383, 16384] } else { &[63, 64, 127, 128] };
    for &n in counts {
        let vals = [
            Val::List(T::I8, (0..n).map(|i| Val::I8(i as i8)).collect()),
            Val::Set(T::I32, (0..n).map(|i| Val::I32(i as i32)).collect()),
            Val::Map(T::I32, T::I8, (0..n).map(|i| (Val::I32(i as i32), Val::I8(1))).collect()),
            Val::Map(T::Bin, T::Bool, (0..n).map(|i| (Val::Bin(format!("{:x}", i).into_bytes()), Val::Bool(i % 2 == 0))).collect()),
        ];
        for v in &vals {
            f("f:count-boundary", v);
            f("f:count-boundary", &Val::Struct(vec![(1, v.clone()), (2, Val::I32(7))]));
        }
    }
}

/// single values of all value spaces
pub fn all_values(c: &SpaceCfg, f: &mut dyn FnMut(&str, &Val)) {
    space_shapes(c, f);
    space_scalars(c, f);
    space_neighbours(c, f);
    space_counts(c, f);
}

//! C01 — Thrift runtime round trip on every protocol and buffer kind.

use crate::drive::*;
use crate::spaces::{self, SpaceCfg};
use bytes::Bytes;
use serde_json::json;
use vcore::refcodec::norm_empty_maps;
use vcore::report::{catch, panic_sig, Args, Caught, Collector};
use vcore::val::{Val, T};

pub fn apis(vals: &[&Val], thorough: bool) -> Vec<(BinApi, BinApi)> {
    let has_bin = vals.iter().any(|v| v.has_bin());
    if !has_bin {
        return vec![(BinApi::Bytes, BinApi::Bytes)];
    }
    let small = vals.iter().map(|v| v.node_count()).sum::<usize>() <= 6;
    if small || thorough {
        let mut v = Vec::new();
        for w in ALL_API {
            v.push((w, w));
        }
        // crossed: what one API writes another must read
        v.push((BinApi::Str, BinApi::Bytes));
        v.push((BinApi::Bytes, BinApi::FastStr));
        v
    } else {
        vec![(BinApi::Bytes, BinApi::Bytes), (BinApi::FastStr, BinApi::Str)]
    }
}

pub fn nontrivial(vals: &[&Val]) -> bool {
    vals.len() > 1 || vals.iter().any(|v| v.node_count() >= 2 || !matches!(v.ty(), T::Bool | T::I8))
}

fn case_json(vals: &[&Val], prot: Prot, buf: BufKind, wapi: BinApi, rapi: BinApi) -> serde_json::Value {
    json!({"vals": vals, "prot": prot.name(), "buf": buf.name(), "wapi": wapi.name(), "rapi": rapi.name(),
           "show": vals.iter().map(|v| v.show()).collect::<Vec<_>>()})
}

/// One execution: write all values through one writer, read them through one reader (plain and
/// generated-code-like call sequences). Returns the list of (signature suffix, detail) failures.
pub fn roundtrip(
    vals: &[&Val],
    prot: Prot,
    buf: BufKind,
    wapi: BinApi,
    rapi: BinApi,
    base: Option<&Vec<u8>>,
    tr: &mut Tracker,
) -> (Vec<(String, String)>, Option<Vec<u8>>) {
    let mut fails = Vec::new();
    let window = if prot == Prot::Unsafe {
        match catch(|| vdrive::drive::pilota_size_zc(prot, vals, wapi, buf == BufKind::LinkedZc)) {
            Caught::Ok(n) => n,
            Caught::Panic(loc, msg) => {
                fails.push((format!("size|{}", panic_sig(&loc, &msg)), msg));
                return (fails, None);
            }
        }
    } else {
        0
    };
    let enc = match catch(|| encode_vals(prot, buf, vals, wapi, tr, window)) {
        Caught::Ok(Ok(e)) => e,
        Caught::Ok(Err(e)) => {
            fails.push((format!("write|err:{}", err_class(&e)), format!("{:?}", e)));
            return (fails, None);
        }
        Caught::Panic(loc, msg) => {
            fails.push((format!("write|{}", panic_sig(&loc, &msg)), msg));
            return (fails, None);
        }
    };
    if !enc.sentinel_ok {
        fails.push(("write|out-of-window".into(), format!("window={} accounted={}", window, enc.accounted)));
    }
    if prot == Prot::Unsafe && enc.accounted != window && buf == BufKind::BytesMut {
        fails.push(("write|accounted!=size".into(), format!("window={} accounted={}", window, enc.accounted)));
    }
    if let Some(b) = base {
        if *b != enc.bytes {
            let at = b.iter().zip(enc.bytes.iter()).position(|(x, y)| x != y).unwrap_or(b.len().min(enc.bytes.len()));
            fails.push((
                "write|differs-from-bytesmut".into(),
                format!("len {} vs {} first diff at {}", enc.bytes.len(), b.len(), at),
            ));
        }
    }
    let tys: Vec<T> = vals.iter().map(|v| v.ty()).collect();
    for genlike in [false, true] {
        let phase = if genlike { "read-genlike" } else { "read" };
        let input = Bytes::from(enc.bytes.clone());
        let out = match catch(|| decode_vals(prot, input, &tys, rapi, genlike, tr)) {
            Caught::Ok(o) => o,
            Caught::Panic(loc, msg) => {
                fails.push((format!("{}|{}", phase, panic_sig(&loc, &msg)), msg));
                continue;
            }
        };
        let mut bad = false;
        for (i, r) in out.vals.iter().enumerate() {
            let which = if i > 0 { "-after-value" } else { "" };
            let f = match r {
                Ok(got) => {
                    let (g, w) = if prot == Prot::Compact {
                        (norm_empty_maps(got), norm_empty_maps(vals[i]))
                    } else {
                        (got.clone(), vals[i].clone())
                    };
                    w.first_diff(&g).map(|d| {
                        (
                            format!("{}{}|mismatch:{}", phase, which, d.rsplit('/').next().unwrap_or("")),
                            format!("want {} got {}", w.show(), g.show()),
                        )
                    })
                }
                Err(e) => Some((format!("{}{}|err:{}", phase, which, err_class(e)), format!("{:?}", e))),
            };
            if let Some(f) = f {
                bad = true;
                // a failure in a later value of a history is history-specific only if that value
                // round-trips on its own; otherwise its own single-value case reports it
                if i > 0 {
                    let mut t2 = Tracker::default();
                    let (alone, _) = roundtrip(&vals[i..i + 1], prot, buf, wapi, rapi, None, &mut t2);
                    if !alone.is_empty() {
                        break;
                    }
                }
                fails.push(f);
                break;
            }
        }
        if !bad && out.remaining != 0 {
            fails.push((format!("{}|remaining", phase), format!("remaining={}", out.remaining as isize)));
        }
    }
    (fails, Some(enc.bytes))
}

/// The buffer kind is part of the signature only for failures that are specific to it.
fn full_sig(prot: Prot, buf: BufKind, sig: &str) -> String {
    if sig.starts_with("write|differs") || sig.starts_with("write|out-of-window") || sig.starts_with("write|accounted") {
        format!("C01|{}/{}|{}", prot.name(), buf.name(), sig)
    } else {
        format!("C01|{}|{}", prot.name(), sig)
    }
}

pub fn run_case(col: &mut Collector, tr: &mut Tracker, vals: &[&Val], thorough: bool) {
    if nontrivial(vals) {
        col.nontrivial += 1;
    }
    if col.samples.len() < 12 && (col.cur_index() % 9973 == 0 || col.samples.len() < 3) {
        col.sample(json!(vals.iter().map(|v| v.show()).collect::<Vec<_>>()));
    }
    for (wapi, rapi) in apis(vals, thorough) {
        for prot in ALL_PROT {
            let mut base: Option<Vec<u8>> = None;
            for buf in ALL_BUF {
                col.evaluations += 1;
                tr.reset_pos();
                let (fails, bytes) = roundtrip(vals, prot, buf, wapi, rapi, base.as_ref(), tr);
                if buf == BufKind::BytesMut {
                    base = bytes;
                }
                if fails.is_empty() {
                    col.outcome("ok");
                }
                for (sig, detail) in fails {
                    col.outcome(sig.split('|').nth(1).unwrap_or("fail").split(':').next().unwrap_or("fail"));
                    col.fail(
                        full_sig(prot, buf, &sig),
                        case_json(vals, prot, buf, wapi, rapi),
                        detail,
                    );
                }
            }
        }
    }
}

pub fn run(a: &Args) {
    let mut col = Collector::new("C01", a);
    let mut tr = Tracker::new();
    let cfg = SpaceCfg { thorough: a.thorough() };
    let th = cfg.thorough;
    spaces::all_values(&cfg, &mut |space, v| {
        if col.next_case(space) {
            run_case(&mut col, &mut tr, &[v], th);
        }
    });
    spaces::space_histories(&cfg, &mut |space, vs| {
        if col.next_case(space) {
            run_case(&mut col, &mut tr, vs, th);
        }
    });
    spaces::space_large(&cfg, &mut |space, v| {
        if col.next_case(space) {
            run_case(&mut col, &mut tr, &[v], false);
        }
    });
    col.states = tr.states.clone();
    col.transitions = tr.transitions.clone();
    col.finish(&a.out);
}

pub fn replay(case: &serde_json::Value) -> Vec<(String, String)> {
    let vals: Vec<Val> = serde_json::from_value(case["vals"].clone()).expect("vals");
    let refs: Vec<&Val> = vals.iter().collect();
    let prot = Prot::from_name(case["prot"].as_str().unwrap());
    let buf = BufKind::from_name(case["buf"].as_str().unwrap());
    let wapi = BinApi::from_name(case["wapi"].as_str().unwrap());
    let rapi = BinApi::from_name(case["rapi"].as_str().unwrap());
    let mut tr = Tracker::new();
    let base = if buf != BufKind::BytesMut {
        roundtrip(&refs, prot, BufKind::BytesMut, wapi, rapi, None, &mut tr).1
    } else {
        None
    };
    let (fails, _) = roundtrip(&refs, prot, buf, wapi, rapi, base.as_ref(), &mut tr);
    fails
        .into_iter()
        .map(|(s, d)| (full_sig(prot, buf, &s), d))
        .collect()
}

//! C09 — safe Thrift decoders are total (runtime level): fault enumeration over seed encodings.

use crate::aio::{self, Mode, Script};
use crate::drive::*;
use vdrive::with_in;
use bytes::Bytes;
use pilota::thrift::{binary, binary_le, compact, TAsyncInputProtocol, TInputProtocol, ThriftException};
use serde_json::json;
use std::collections::HashSet;
use std::hash::{Hash, Hasher};
use vcore::alloc;
use vcore::refcodec::{self as rc, Ann, PosKind, Proto};
use vcore::report::{catch, panic_sig, Args, Caught, Collector};
use vcore::val::{self, Val, T};

pub const SAFE: [Prot; 3] = [Prot::Binary, Prot::BinaryLe, Prot::Compact];

#[derive(Debug, Clone, PartialEq)]
pub enum Out {
    Ok,
    Err(String),
    Panic(String),
    Exec(String),
}

pub struct Meas {
    pub out: Out,
    pub alloc_total: usize,
    pub alloc_max: usize,
    pub micros: u128,
}

pub fn budget(len: usize) -> usize {
    // the window includes the harness's own per-node costs (a Val and, on the async path, one
    // boxed future per node): up to ~500 bytes per input byte were measured on honest decoders
    (64 << 10) + 1024 * len
}

fn measure(f: impl FnOnce() -> Out) -> Meas {
    alloc::window_start();
    let t0 = std::time::Instant::now();
    let out = f();
    let micros = t0.elapsed().as_micros();
    let s = alloc::window_read();
    Meas { out, alloc_total: s.total, alloc_max: s.maxreq, micros }
}

pub fn sync_read(prot: Prot, b: &[u8], t: T, genlike: bool) -> Meas {
    let input = Bytes::copy_from_slice(b);
    measure(|| {
        let mut tr = Tracker::default();
        match catch(|| decode_vals(prot, input, &[t], BinApi::Bytes, genlike, &mut tr)) {
            Caught::Ok(mut o) => match o.vals.pop() {
                Some(Ok(_)) => Out::Ok,
                Some(Err(e)) => Out::Err(err_class(&e)),
                None => Out::Err("none".into()),
            },
            Caught::Panic(loc, msg) => Out::Panic(panic_sig(&loc, &msg)),
        }
    })
}

/// typed reads with every bin/string API (the interpreter above uses read_bytes only)
pub fn sync_read_api(prot: Prot, b: &[u8], t: T, api: BinApi) -> Meas {
    let input = Bytes::copy_from_slice(b);
    measure(|| {
        let mut tr = Tracker::default();
        match catch(|| decode_vals(prot, input, &[t], api, false, &mut tr)) {
            Caught::Ok(mut o) => match o.vals.pop() {
                Some(Ok(_)) => Out::Ok,
                Some(Err(e)) => Out::Err(err_class(&e)),
                None => Out::Err("none".into()),
            },
            Caught::Panic(loc, msg) => Out::Panic(panic_sig(&loc, &msg)),
        }
    })
}

pub fn sync_skip(prot: Prot, b: &[u8], t: T) -> Meas {
    let mut input = Bytes::copy_from_slice(b);
    measure(|| {
        match catch(|| -> Result<usize, ThriftException> { with_in!(prot, &mut input, p => p.skip(tt(t))) }) {
            Caught::Ok(Ok(_)) => Out::Ok,
            Caught::Ok(Err(e)) => Out::Err(err_class(&e)),
            Caught::Panic(loc, msg) => Out::Panic(panic_sig(&loc, &msg)),
        }
    })
}

pub fn async_run(prot: Prot, b: &[u8], t: T, skip: bool, api: BinApi, mode: Mode) -> Meas {
    let (script, shared) = Script::new(b.to_vec(), mode, std::ptr::null_mut());
    measure(|| {
        let r = catch(|| {
            macro_rules! go {
                ($p:expr) => {{
                    let mut p = $p;
                    aio::block_on(
                        async {
                            if skip {
                                p.skip(tt(t)).await
                            } else {
                                read_val_async(&mut p, t, api, 0).await.map(|_| ())
                            }
                        },
                        &shared,
                    )
                }};
            }
            match prot {
                Prot::Binary => go!(binary::TAsyncBinaryProtocol::new(script)),
                Prot::BinaryLe => go!(binary_le::TAsyncBinaryProtocol::new(script)),
                Prot::Compact => go!(compact::TAsyncCompactProtocol::new(script)),
                Prot::Unsafe => unreachable!(),
            }
        });
        match r {
            Caught::Ok(Ok(Ok(()))) => Out::Ok,
            Caught::Ok(Ok(Err(e))) => Out::Err(err_class(&e)),
            Caught::Ok(Err(x)) => Out::Exec(format!("{:?}", x)),
            Caught::Panic(loc, msg) => Out::Panic(panic_sig(&loc, &msg)),
        }
    })
}

pub struct Fault<'a> {
    pub prot: Prot,
    pub t: T,
    pub bytes: Vec<u8>,
    /// "trunc" | "flip" | "overwrite:<kind>" | "string"
    pub kind: &'a str,
    pub strict_prefix: bool,
    pub seed_show: String,
}

pub fn judge(col: &mut Collector, f: &Fault, with_async: bool, all_apis: bool) {
    let len = f.bytes.len();
    let case = || json!({"prot": f.prot.name(), "t": f.t, "bytes": f.bytes, "kind": f.kind, "seed": f.seed_show, "strict_prefix": f.strict_prefix});
    let mut targets: Vec<(String, Meas)> = vec![
        ("read".into(), sync_read(f.prot, &f.bytes, f.t, false)),
        ("read-genlike".into(), sync_read(f.prot, &f.bytes, f.t, true)),
        ("skip".into(), sync_skip(f.prot, &f.bytes, f.t)),
    ];
    if all_apis {
        for api in [BinApi::Str, BinApi::FastStr, BinApi::Vec] {
            targets.push((format!("read-{}", api.name()), sync_read_api(f.prot, &f.bytes, f.t, api)));
        }
    }
    if with_async {
        targets.push(("async-read".into(), async_run(f.prot, &f.bytes, f.t, false, BinApi::Bytes, Mode::All)));
        targets.push(("async-skip".into(), async_run(f.prot, &f.bytes, f.t, true, BinApi::Bytes, Mode::All)));
        if all_apis {
            targets.push(("async-read-string".into(), async_run(f.prot, &f.bytes, f.t, false, BinApi::Str, Mode::All)));
        }
    }
    for (name, m) in targets {
        col.evaluations += 1;
        let head = format!("C09|{}|{}", f.prot.name(), name);
        match &m.out {
            Out::Ok => {
                if f.strict_prefix {
                    col.outcome("prefix-accepted");
                    col.fail(format!("{}|strict-prefix-accepted", head), case(), "a strict prefix of a valid encoding was accepted".into());
                } else {
                    col.outcome("ok");
                }
            }
            Out::Err(_) => col.outcome("err"),
            Out::Panic(p) => {
                col.outcome("panic");
                col.fail(format!("{}|{}", head, p), case(), p.clone());
            }
            Out::Exec(x) => {
                col.outcome("exec");
                col.fail(format!("{}|executor:{}", head, x), case(), x.clone());
            }
        }
        if m.alloc_total > budget(len) {
            col.outcome("over-budget");
            col.fail(
                format!("{}|alloc-out-of-proportion", head),
                case(),
                format!("{} bytes requested (largest single request {}) for a {}-byte input; budget {}", m.alloc_total, m.alloc_max, len, budget(len)),
            );
        }
        if m.micros > 2_000_000 {
            col.outcome("slow");
            col.slow += 1;
            col.fail(format!("{}|slow", head), case(), format!("{} us", m.micros));
        }
    }
}

use vcore::refcodec::fault_replacements as replacements;

fn hash_fault(prot: Prot, t: T, b: &[u8]) -> u64 {
    let mut h = std::collections::hash_map::DefaultHasher::new();
    (prot as u8).hash(&mut h);
    (t as u8).hash(&mut h);
    b.hash(&mut h);
    h.finish()
}

pub fn seeds(thorough: bool) -> Vec<Val> {
    let mut s = Vec::new();
    let mut basis = Vec::new();
    val::shapes(1, 2, &[1, 2], &mut basis);
    if thorough {
        val::compose(&basis, 2, &[1], &mut s);
        s.extend(basis.iter().cloned());
    } else {
        s.extend(basis.iter().cloned());
        for v in basis.iter().filter(|v| !v.ty().is_leaf() && v.node_count() <= 3) {
            val::wrap_all(v, &mut s);
        }
    }
    // payloads on both sides of interesting sizes
    for n in [0usize, 1, 127, 128, 300] {
        s.push(Val::Bin(val::bin_of_len(n)));
        s.push(Val::Struct(vec![(1, Val::Bin(val::bin_of_len(n))), (2, Val::I32(1))]));
        s.push(Val::List(T::Bin, vec![Val::Bin(val::bin_of_len(n)), Val::Bin(val::bin_of_len(2))]));
    }
    s.push(Val::List(T::I32, (0..15).map(Val::I32).collect()));
    s.push(Val::List(T::I32, (0..16).map(Val::I32).collect()));
    s.push(Val::Map(T::Bin, T::List, vec![(Val::Bin(b"k".to_vec()), Val::List(T::Bool, vec![Val::Bool(true)]))]));
    s
}

pub fn run(a: &Args) {
    let mut col = Collector::new("C09", a);
    let th = a.thorough();
    let mut seen: HashSet<u64> = HashSet::new();
    let ss = seeds(th);
    let mut nsamples = 0;
    for v in &ss {
        for prot in SAFE {
            let wire = prot.wire();
            let (enc, ann) = rc::encode_ann(wire, v);
            let show = v.show();
            // the seed itself must be accepted (binds the fault set to valid encodings)
            if col.next_case("seed") {
                let f = Fault { prot, t: v.ty(), bytes: enc.clone(), kind: "seed", strict_prefix: false, seed_show: show.clone() };
                let m = sync_read(prot, &enc, v.ty(), false);
                if m.out != Out::Ok {
                    col.fail(format!("C09|{}|seed-rejected", prot.name()), json!({"seed": show, "bytes": enc}), format!("{:?}", m.out));
                }
                judge(&mut col, &f, true, true);
                if seen.insert(hash_fault(prot, v.ty(), &enc)) {
                    col.nontrivial += 1;
                }
            }
            // truncations
            for n in 0..enc.len() {
                if !col.next_case("trunc") {
                    continue;
                }
                let f = Fault { prot, t: v.ty(), bytes: enc[..n].to_vec(), kind: "trunc", strict_prefix: true, seed_show: show.clone() };
                if seen.insert(hash_fault(prot, v.ty(), &f.bytes)) {
                    col.nontrivial += 1;
                }
                judge(&mut col, &f, true, n + 1 == enc.len() || th);
                if nsamples < 4 {
                    nsamples += 1;
                    col.sample(json!({"fault": "trunc", "seed": show, "prot": prot.name(), "bytes": f.bytes}));
                }
            }
            // overwrites of annotated positions
            for an in &ann {
                for rep in replacements(wire, an, enc.len()) {
                    if !col.next_case("overwrite") {
                        continue;
                    }
                    let mut b = enc[..an.off].to_vec();
                    b.extend_from_slice(&rep);
                    b.extend_from_slice(&enc[an.off + an.len..]);
                    let kind = match an.kind {
                        PosKind::BinLen => "overwrite:binlen",
                        PosKind::Count => "overwrite:count",
                        PosKind::FieldId => "overwrite:fieldid",
                        PosKind::FieldType => "overwrite:fieldtype",
                        PosKind::ElemType => "overwrite:elemtype",
                    };
                    let f = Fault { prot, t: v.ty(), bytes: b, kind, strict_prefix: false, seed_show: show.clone() };
                    if seen.insert(hash_fault(prot, v.ty(), &f.bytes)) {
                        col.nontrivial += 1;
                    }
                    judge(&mut col, &f, true, true);
                    if nsamples < 8 {
                        nsamples += 1;
                        col.sample(json!({"fault": kind, "seed": show, "prot": prot.name(), "bytes": f.bytes}));
                    }
                }
            }
            // single-bit flips
            if th || enc.len() <= 12 {
                for i in 0..enc.len() {
                    for bit in 0..8 {
                        if !col.next_case("flip") {
                            continue;
                        }
                        let mut b = enc.clone();
                        b[i] ^= 1 << bit;
                        let f = Fault { prot, t: v.ty(), bytes: b, kind: "flip", strict_prefix: false, seed_show: show.clone() };
                        if seen.insert(hash_fault(prot, v.ty(), &f.bytes)) {
                            col.nontrivial += 1;
                        }
                        judge(&mut col, &f, th, false);
                    }
                }
            }
        }
    }
    // all short byte strings, read as each top-level type
    let alpha: [u8; 12] = [0x00, 0x01, 0x02, 0x0b, 0x0c, 0x0d, 0x0f, 0x10, 0x7f, 0x80, 0xff, 0x82];
    let tops = [T::Struct, T::List, T::Map, T::Bin, T::Set, T::I32];
    let mut strings: Vec<Vec<u8>> = vec![vec![]];
    for a0 in 0..=255u8 {
        strings.push(vec![a0]);
    }
    for a0 in 0..=255u8 {
        for a1 in 0..=255u8 {
            strings.push(vec![a0, a1]);
        }
    }
    let maxlen = if th { 5 } else { 4 };
    for l in 3..=maxlen {
        let mut idx = vec![0usize; l];
        loop {
            strings.push(idx.iter().map(|i| alpha[*i]).collect());
            let mut k = 0;
            while k < l {
                idx[k] += 1;
                if idx[k] < alpha.len() {
                    break;
                }
                idx[k] = 0;
                k += 1;
            }
            if k == l {
                break;
            }
        }
    }
    for s in &strings {
        for prot in SAFE {
            for t in tops {
                if !col.next_case("string") {
                    continue;
                }
                let f = Fault { prot, t, bytes: s.clone(), kind: "string", strict_prefix: false, seed_show: String::new() };
                if seen.insert(hash_fault(prot, t, s)) {
                    col.nontrivial += 1;
                }
                judge(&mut col, &f, s.len() <= 2 || th, false);
            }
        }
    }
    // nesting far beyond the skippers' depth budget of 64, through every recursive position
    // (struct field, list / set element, map value, map key): the skip must answer with an error -
    // accepting it means unbounded recursion, and a long enough input overflows the stack
    for kind in DEEP_KINDS {
        for prot in SAFE {
            // the builder is validated first: the same construction 3 and 32 deep must be skipped
            // completely by the sync skipper (otherwise "rejected" below would mean nothing)
            for d in [3usize, 32] {
                let (b, top) = deep_bytes(prot, kind, d);
                let m = sync_skip(prot, &b, top);
                if m.out != Out::Ok {
                    eprintln!("MACHINERY: deep_bytes({}, {}, {}) is not a valid encoding: {:?}", prot.name(), kind, d, m.out);
                    std::process::exit(2);
                }
            }
            for d in [65usize, 66, 100, 5000, 200_000] {
                if col.next_case("deep-nesting") {
                    col.nontrivial += 1;
                    deep_case(&mut col, prot, kind, d);
                }
            }
        }
    }
    col.finish(&a.out);
}

const DEEP_KINDS: [&str; 5] = ["struct", "list", "set", "map-value", "map-key"];

/// encoding of `d` nested containers of one kind (built iteratively: no recursion in the harness)
fn deep_bytes(prot: Prot, kind: &str, d: usize) -> (Vec<u8>, T) {
    let le = prot == Prot::BinaryLe;
    let i32b = |n: i32| if le { n.to_le_bytes() } else { n.to_be_bytes() };
    let i16b = |n: i16| if le { n.to_le_bytes() } else { n.to_be_bytes() };
    let (mut open, mut inner, mut close): (Vec<u8>, Vec<u8>, Vec<u8>) = (vec![], vec![], vec![]);
    let top;
    if prot == Prot::Compact {
        match kind {
            "struct" => {
                open = vec![0x1c];
                inner = vec![0x00];
                close = vec![0x00];
                top = T::Struct;
            }
            "list" => {
                open = vec![0x19];
                inner = vec![0x03];
                top = T::List;
            }
            "set" => {
                open = vec![0x1a];
                inner = vec![0x03];
                top = T::Set;
            }
            "map-value" => {
                open = vec![0x01, 0x3b, 0x00];
                inner = vec![0x00];
                top = T::Map;
            }
            _ => {
                open = vec![0x01, 0xb3];
                inner = vec![0x00];
                close = vec![0x00];
                top = T::Map;
            }
        }
    } else {
        match kind {
            "struct" => {
                open.push(12);
                open.extend_from_slice(&i16b(1));
                inner = vec![0];
                close = vec![0];
                top = T::Struct;
            }
            "list" | "set" => {
                let code = if kind == "list" { 15 } else { 14 };
                open.push(code);
                open.extend_from_slice(&i32b(1));
                inner.push(3);
                inner.extend_from_slice(&i32b(0));
                top = if kind == "list" { T::List } else { T::Set };
            }
            "map-value" => {
                open.extend_from_slice(&[3, 13]);
                open.extend_from_slice(&i32b(1));
                open.push(0);
                inner.extend_from_slice(&[3, 3]);
                inner.extend_from_slice(&i32b(0));
                top = T::Map;
            }
            _ => {
                open.extend_from_slice(&[13, 3]);
                open.extend_from_slice(&i32b(1));
                inner.extend_from_slice(&[3, 3]);
                inner.extend_from_slice(&i32b(0));
                close = vec![0];
                top = T::Map;
            }
        }
    }
    // the top-level value is the outermost container: its own header is what `skip(top)` expects
    // after the caller has read nothing, so the first `open` loses its leading type information
    // where the encoding of a bare value has none (list/set/map/struct bodies start directly)
    let mut out = Vec::with_capacity(open.len() * d + inner.len() + close.len() * d);
    for i in 0..d {
        if i == 0 {
            // bare value: struct body starts with the field header; list/set/map start with their header
            match (prot == Prot::Compact, kind) {
                (_, "struct") => out.extend_from_slice(&open),
                (true, "list") | (true, "set") => out.extend_from_slice(&open),
                (true, _) => out.extend_from_slice(&open),
                (false, _) => out.extend_from_slice(&open),
            }
        } else {
            out.extend_from_slice(&open);
        }
    }
    out.extend_from_slice(&inner);
    for _ in 0..d {
        out.extend_from_slice(&close);
    }
    (out, top)
}

fn deep_case(col: &mut Collector, prot: Prot, kind: &str, d: usize) {
    let (bytes, top) = deep_bytes(prot, kind, d);
    let case = || json!({"kind": "deep", "prot": prot.name(), "nest": kind, "d": d});
    for (name, m) in [("skip", sync_skip(prot, &bytes, top)), ("async-skip", async_run(prot, &bytes, top, true, BinApi::Bytes, Mode::All))] {
        col.evaluations += 1;
        let head = format!("C09|{}|{}", prot.name(), name);
        match &m.out {
            Out::Ok => {
                col.outcome("deep-accepted");
                col.fail(format!("{}|deep-nesting-accepted:{}", head, kind), case(), format!("{} nested {} deep was skipped without an error (depth budget 64)", kind, d));
            }
            Out::Err(_) => col.outcome("err"),
            Out::Panic(p) => col.fail(format!("{}|{}", head, p), case(), p.clone()),
            Out::Exec(x) => col.fail(format!("{}|executor:{}", head, x), case(), x.clone()),
        }
        if m.alloc_total > budget(bytes.len()) {
            col.fail(format!("{}|alloc-out-of-proportion", head), case(), format!("{} bytes for {} input bytes", m.alloc_total, bytes.len()));
        }
    }
}

pub fn replay(case: &serde_json::Value) -> Vec<(String, String)> {
    let mut a = Args::parse();
    a.progress = None;
    let mut col = Collector::new("C09", &a);
    col.index = 1;
    let kind = case["kind"].as_str().unwrap_or("trunc").to_string();
    if kind == "deep" {
        deep_case(&mut col, Prot::from_name(case["prot"].as_str().unwrap()), case["nest"].as_str().unwrap(), case["d"].as_u64().unwrap() as usize);
        return col.failures.iter().map(|(s, g)| (s.clone(), g.detail.clone())).collect();
    }
    let f = Fault {
        prot: Prot::from_name(case["prot"].as_str().unwrap()),
        t: serde_json::from_value(case["t"].clone()).unwrap(),
        bytes: serde_json::from_value(case["bytes"].clone()).unwrap(),
        kind: &kind,
        strict_prefix: case["strict_prefix"].as_bool().unwrap_or(false),
        seed_show: String::new(),
    };
    judge(&mut col, &f, true, true);
    col.failures.iter().map(|(s, g)| (s.clone(), g.detail.clone())).collect()
}

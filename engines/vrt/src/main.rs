mod c01;
mod c03;
mod c04;
mod c07;
mod c09;
mod c11;
mod c12;
mod spaces;

pub use vdrive::{aio, drive};
use vcore::report::{install_silent_panic_hook, Args};

#[global_allocator]
static ALLOC: vcore::alloc::Counting = vcore::alloc::Counting;

fn main() {
    let a = Args::parse();
    install_silent_panic_hook();
    match vcore::refcodec::self_check() {
        Ok(_) => {}
        Err(e) => {
            eprintln!("MACHINERY: {}", e);
            std::process::exit(2);
        }
    }
    if let Some(path) = &a.replay {
        let txt = std::fs::read_to_string(path).expect("read replay file");
        let v: serde_json::Value = serde_json::from_str(&txt).expect("parse replay file");
        let prop = v["property"].as_str().unwrap_or("").to_string();
        let case = &v["case"];
        let run = |case: &serde_json::Value| -> Vec<(String, String)> {
            match prop.as_str() {
                "C01" => c01::replay(case),
                "C03" => c03::replay(case),
                "C04" => c04::replay(case),
                "C07" => c07::replay(case),
                "C09" => c09::replay(case),
                "C11" => c11::replay(case),
                "C12" => c12::replay(case),
                _ => {
                    eprintln!("MACHINERY: no replay for {}", prop);
                    std::process::exit(2);
                }
            }
        };
        let r1 = run(case);
        let r2 = run(case);
        let s1: Vec<&String> = r1.iter().map(|x| &x.0).collect();
        let s2: Vec<&String> = r2.iter().map(|x| &x.0).collect();
        if s1 != s2 {
            eprintln!("MACHINERY: nondeterministic replay: {:?} vs {:?}", s1, s2);
            std::process::exit(2);
        }
        let want = v["sig"].as_str().unwrap_or("");
        for (s, d) in &r1 {
            println!("OBSERVED {} :: {}", s, d);
        }
        if r1.iter().any(|x| x.0 == want) {
            println!("REPRODUCED {}", want);
            std::process::exit(1);
        } else {
            println!("NOT-REPRODUCED {}", want);
            std::process::exit(0);
        }
    }
    match a.check.as_str() {
        "C01" => c01::run(&a),
        "C03" => c03::run(&a),
        "C04" => c04::run(&a),
        "C07" => c07::run(&a),
        "C09" => c09::run(&a),
        "C11" => c11::run(&a),
        "C12" => c12::run(&a),
        "selfcheck" => {
            println!("ok");
        }
        other => {
            eprintln!("MACHINERY: unknown check {}", other);
            std::process::exit(2);
        }
    }
}

//! C03 — Thrift wire format conforms to the Apache protocol specs (interop).

use crate::drive::*;
use crate::spaces::{self, SpaceCfg};
use vdrive::{with_in, with_out};
use bytes::{Bytes, BytesMut};
use faststr::FastStr;
use pilota::thrift::{
    ApplicationException, ApplicationExceptionKind, Message, TInputProtocol, TLengthProtocol,
    TMessageIdentifier, TMessageType, TOutputProtocol, ThriftException,
};
use serde_json::json;
use vcore::explore;
use vcore::refcodec::{self as rc, norm_empty_maps, Ann, Choice, Enc, Envelope, PosKind, Proto};
use vcore::report::{catch, panic_sig, Args, Caught, Collector};
use vcore::val::{Val, T};

/// protocols whose wire format is an Apache one
const PROTS: [Prot; 3] = [Prot::Binary, Prot::Compact, Prot::Unsafe];

fn pilota_encode(prot: Prot, v: &Val, api: BinApi) -> Result<Vec<u8>, String> {
    let mut tr = Tracker::default();
    let window = if prot == Prot::Unsafe {
        match catch(|| pilota_size(prot, &[v], api)) {
            Caught::Ok(n) => n,
            Caught::Panic(loc, msg) => return Err(panic_sig(&loc, &msg)),
        }
    } else {
        0
    };
    match catch(|| encode_vals(prot, BufKind::BytesMut, &[v], api, &mut tr, window)) {
        Caught::Ok(Ok(e)) => Ok(e.bytes),
        Caught::Ok(Err(e)) => Err(format!("err:{}", err_class(&e))),
        Caught::Panic(loc, msg) => Err(panic_sig(&loc, &msg)),
    }
}

fn pilota_decode(prot: Prot, b: &[u8], t: T, api: BinApi) -> Result<(Val, usize), String> {
    let mut tr = Tracker::default();
    let input = Bytes::copy_from_slice(b);
    match catch(|| decode_vals(prot, input, &[t], api, false, &mut tr)) {
        Caught::Ok(mut o) => match o.vals.pop() {
            Some(Ok(v)) => Ok((v, o.remaining)),
            Some(Err(e)) => Err(format!("err:{}", err_class(&e))),
            None => Err("novalue".into()),
        },
        Caught::Panic(loc, msg) => Err(panic_sig(&loc, &msg)),
    }
}

fn pilota_skip(prot: Prot, b: &[u8], t: T) -> Result<usize, String> {
    let mut input = Bytes::copy_from_slice(b);
    let r = catch(|| -> Result<usize, ThriftException> {
        if prot == Prot::Unsafe {
            let mut p = unsafe { pilota::thrift::binary_unsafe::TBinaryUnsafeInputProtocol::new(&mut input) };
            p.skip_till_depth(tt(t), 64)
        } else {
            with_in!(prot, &mut input, p => p.skip(tt(t)))
        }
    });
    match r {
        Caught::Ok(Ok(n)) => Ok(n),
        Caught::Ok(Err(e)) => Err(format!("err:{}", err_class(&e))),
        Caught::Panic(loc, msg) => Err(panic_sig(&loc, &msg)),
    }
}

fn diff_class(want: &Val, got: &Val) -> Option<String> {
    let (w, g) = (norm_empty_maps(want), norm_empty_maps(got));
    w.first_diff(&g).map(|d| d.rsplit('/').next().unwrap_or("").to_string())
}

/// direction pilota -> reference decoder
fn dir_out(col: &mut Collector, v: &Val, api: BinApi) {
    for prot in PROTS {
        col.evaluations += 1;
        let case = || json!({"dir": "pilota->ref", "val": v, "prot": prot.name(), "api": api.name(), "show": v.show()});
        match pilota_encode(prot, v, api) {
            Err(e) => {
                col.outcome("encode-fail");
                col.fail(format!("C03|{}|pilota->ref|encode:{}", prot.name(), e), case(), e.clone());
            }
            Ok(bytes) => {
                let mut d = rc::Dec::new(prot.wire(), &bytes);
                d.lenient_bool = false;
                match d.value(v.ty(), 0) {
                    Ok(got) => {
                        if let Some(c) = diff_class(v, &got) {
                            col.outcome("ref-mismatch");
                            col.fail(
                                format!("C03|{}|pilota->ref|mismatch:{}", prot.name(), c),
                                case(),
                                format!("reference decoder read {} from pilota's bytes {:02x?}", got.show(), &bytes[..bytes.len().min(40)]),
                            );
                        } else if d.pos != bytes.len() {
                            col.outcome("ref-trailing");
                            col.fail(
                                format!("C03|{}|pilota->ref|trailing-bytes", prot.name()),
                                case(),
                                format!("{} of {} bytes are the value", d.pos, bytes.len()),
                            );
                        } else {
                            col.outcome("ok-out");
                        }
                    }
                    Err(e) => {
                        col.outcome("ref-reject");
                        col.fail(
                            format!("C03|{}|pilota->ref|not-valid:{:?}", prot.name(), e).replace(|c: char| c.is_ascii_digit(), "#"),
                            case(),
                            format!("reference decoder rejects pilota's bytes {:02x?}: {:?}", &bytes[..bytes.len().min(40)], e),
                        );
                    }
                }
            }
        }
    }
}

/// direction reference encoder (all legal alternative forms within the deviation bound) -> pilota
fn dir_in(col: &mut Collector, v: &Val, api: BinApi, bound: usize) {
    for prot in PROTS {
        let wire = prot.wire();
        let st = explore::explore(bound, 20_000, |ctx| {
            let mut kinds: Vec<Choice> = Vec::new();
            let bytes = {
                let mut chooser = |c: Choice| {
                    kinds.push(c);
                    ctx.choose(c.arity())
                };
                let mut e = Enc::with_chooser(wire, &mut chooser);
                e.value(v);
                e.out
            };
            col.evaluations += 1;
            let choices = ctx.choices();
            let form = kinds
                .iter()
                .zip(choices.iter())
                .filter(|(_, c)| **c != 0)
                .map(|(k, _)| format!("{:?}", k))
                .collect::<Vec<_>>()
                .join("+");
            let form = if form.is_empty() { "default".to_string() } else { form };
            let case = || json!({"dir": "ref->pilota", "val": v, "prot": prot.name(), "api": api.name(), "choices": choices, "show": v.show(), "bytes": bytes});
            match pilota_decode(prot, &bytes, v.ty(), api) {
                Ok((got, rem)) => {
                    if let Some(c) = diff_class(v, &got) {
                        col.outcome("in-mismatch");
                        col.fail(
                            format!("C03|{}|ref->pilota[{}]|mismatch:{}", prot.name(), form, c),
                            case(),
                            format!("pilota read {} from reference bytes {:02x?}", got.show(), &bytes[..bytes.len().min(40)]),
                        );
                    } else if rem != 0 {
                        col.outcome("in-remaining");
                        col.fail(format!("C03|{}|ref->pilota[{}]|remaining", prot.name(), form), case(), format!("remaining {}", rem as isize));
                    } else {
                        col.outcome(if form == "default" { "ok-in" } else { "ok-in-altform" });
                    }
                }
                Err(e) => {
                    col.outcome("in-reject");
                    col.fail(
                        format!("C03|{}|ref->pilota[{}]|{}", prot.name(), form, e),
                        case(),
                        format!("pilota fails on reference bytes {:02x?}: {}", &bytes[..bytes.len().min(40)], e),
                    );
                }
            }
        });
        if st.capped {
            col.caps.push("alt-form schedules capped at 20000 per value".into());
        }
    }
}

/// every out-of-spec type code in every type position must be rejected (typed read and skip)
fn type_codes(col: &mut Collector, v: &Val) {
    for prot in PROTS {
        let wire = prot.wire();
        let (bytes, ann) = rc::encode_ann(wire, v);
        let positions: Vec<&Ann> = ann
            .iter()
            .filter(|a| matches!(a.kind, PosKind::FieldType | PosKind::ElemType))
            .collect();
        for a in positions {
            let orig = bytes[a.off];
            // candidate replacement bytes
            let mut cands: Vec<u8> = Vec::new();
            match wire {
                Proto::Compact => {
                    // low nibble (field type / list elem type / map value type), high nibble for
                    // map key type
                    for n in [14u8, 15] {
                        cands.push((orig & 0xf0) | n);
                    }
                    if a.kind == PosKind::ElemType {
                        // stop nibble as element type
                        cands.push(orig & 0xf0);
                    }
                }
                _ => {
                    for b in 0u16..=255 {
                        let b = b as u8;
                        let legal = T::from_u8(b).is_some();
                        // 0 in field-type position is STOP (legal): skip it there
                        if legal || (a.kind == PosKind::FieldType && b == 0) {
                            continue;
                        }
                        cands.push(b);
                    }
                }
            }
            for c in cands {
                let mut m = bytes.clone();
                m[a.off] = c;
                col.evaluations += 1;
                let case = || json!({"dir": "typecode", "val": v, "prot": prot.name(), "offset": a.off, "byte": c, "show": v.show(), "bytes": m});
                let r1 = pilota_decode(prot, &m, v.ty(), BinApi::Bytes);
                let r2 = if prot == Prot::Unsafe { Err("n/a".to_string()) } else { pilota_skip(prot, &m, v.ty()) };
                for (which, r) in [("read", r1.map(|_| ())), ("skip", r2.map(|_| ()))] {
                    match r {
                        Err(e) if e.starts_with("err:") || e == "n/a" => col.outcome("typecode-rejected"),
                        Err(e) => {
                            col.outcome("typecode-panic");
                            col.fail(format!("C03|{}|typecode-{}|{}", prot.name(), which, e), case(), e.clone());
                        }
                        Ok(()) => {
                            col.outcome("typecode-accepted");
                            col.fail(
                                format!("C03|{}|typecode-{}|accepted:{:?}", prot.name(), which, a.kind),
                                case(),
                                format!("type byte {:#04x} at offset {} accepted", c, a.off),
                            );
                        }
                    }
                }
            }
        }
    }
}

fn all_nonempty(v: &Val) -> bool {
    match v {
        Val::Struct(f) => f.iter().all(|(_, x)| all_nonempty(x)),
        Val::List(_, e) | Val::Set(_, e) => !e.is_empty() && e.iter().all(all_nonempty),
        Val::Map(_, _, e) => !e.is_empty() && e.iter().all(|(k, x)| all_nonempty(k) && all_nonempty(x)),
        _ => true,
    }
}

fn mtype(n: u8) -> TMessageType {
    match n {
        1 => TMessageType::Call,
        2 => TMessageType::Reply,
        3 => TMessageType::Exception,
        _ => TMessageType::OneWay,
    }
}

fn envelopes(col: &mut Collector, e: &Envelope) {
    for prot in PROTS {
        let wire = prot.wire();
        col.evaluations += 1;
        let case = || json!({"dir": "envelope", "envelope": e, "prot": prot.name()});
        let name = FastStr::new(String::from_utf8(e.name.clone()).unwrap());
        let id = TMessageIdentifier::new(name, mtype(e.mtype), e.seq);
        // pilota -> reference
        let r = catch(|| -> Result<Vec<u8>, ThriftException> {
            let mut b = BytesMut::new();
            let window = 64 + e.name.len();
            with_out!(prot, &mut b, window, p => { p.write_message_begin(&id)?; p.write_message_end()?; });
            Ok(b.to_vec())
        });
        match r {
            Caught::Ok(Ok(bytes)) => match rc::decode_envelope(wire, &bytes) {
                Ok((got, used)) if got == *e && used == bytes.len() => col.outcome("ok-envelope-out"),
                other => col.fail(
                    format!("C03|{}|envelope-out", prot.name()),
                    case(),
                    format!("reference read {:?} from {:02x?}", other, &bytes[..bytes.len().min(32)]),
                ),
            },
            Caught::Ok(Err(x)) => col.fail(format!("C03|{}|envelope-out-err", prot.name()), case(), format!("{:?}", x)),
            Caught::Panic(loc, msg) => col.fail(format!("C03|{}|envelope-out-{}", prot.name(), panic_sig(&loc, &msg)), case(), msg),
        }
        // reference -> pilota
        let bytes = rc::encode_envelope(wire, e);
        let total = bytes.len();
        let r = catch(|| -> Result<(TMessageIdentifier, usize), ThriftException> {
            let mut input = Bytes::from(bytes.clone());
            let id = with_in!(prot, &mut input, p => { let id = p.read_message_begin()?; p.read_message_end()?; id });
            Ok((id, input.len()))
        });
        match r {
            Caught::Ok(Ok((got, rem))) => {
                if got.name.as_bytes() == &e.name[..] && got.message_type as u8 == e.mtype && got.sequence_number == e.seq && rem == 0 {
                    col.outcome("ok-envelope-in");
                } else {
                    col.fail(
                        format!("C03|{}|envelope-in", prot.name()),
                        case(),
                        format!("pilota read {:?} (remaining {}) from {} reference bytes", got, rem, total),
                    );
                }
            }
            Caught::Ok(Err(x)) => col.fail(format!("C03|{}|envelope-in-err", prot.name()), case(), format!("{:?}", x)),
            Caught::Panic(loc, msg) => col.fail(format!("C03|{}|envelope-in-{}", prot.name(), panic_sig(&loc, &msg)), case(), msg),
        }
    }
}

fn app_exception(col: &mut Collector, kind: i32, msg: &str) {
    let want = Val::Struct(vec![(1, Val::Bin(msg.as_bytes().to_vec())), (2, Val::I32(kind))]);
    let ex = ApplicationException::new(ApplicationExceptionKind::from_i32(kind), msg.to_string());
    for prot in PROTS {
        col.evaluations += 1;
        let case = || json!({"dir": "appexc", "kind": kind, "msg": msg, "prot": prot.name()});
        let r = catch(|| -> Result<(Vec<u8>, usize), ThriftException> {
            let mut b = BytesMut::new();
            let size = with_out!(prot, &mut b, 64 + msg.len(), p => { let n = ex.size(&mut p); ex.encode(&mut p)?; n });
            Ok((b.to_vec(), size))
        });
        match r {
            Caught::Ok(Ok((bytes, size))) => {
                let ok = matches!(rc::decode(prot.wire(), T::Struct, &bytes), Ok((ref got, used)) if *got == want && used == bytes.len());
                if ok && size == bytes.len() {
                    col.outcome("ok-appexc-out");
                } else {
                    col.fail(format!("C03|{}|appexc-out", prot.name()), case(), format!("bytes {:02x?} size() {}", &bytes[..bytes.len().min(32)], size));
                }
            }
            Caught::Ok(Err(x)) => col.fail(format!("C03|{}|appexc-out-err", prot.name()), case(), format!("{:?}", x)),
            Caught::Panic(loc, m) => col.fail(format!("C03|{}|appexc-out-{}", prot.name(), panic_sig(&loc, &m)), case(), m),
        }
        // reference -> pilota, with an unknown field of every leaf type in front / between / after
        let mut variants = vec![want.clone()];
        for (i, extra) in vcore::val::leaves().into_iter().enumerate() {
            let pos = i % 3;
            let mut f = vec![(1, Val::Bin(msg.as_bytes().to_vec())), (2, Val::I32(kind))];
            f.insert(pos, (if pos == 0 { -5 } else { 7 + pos as i16 * 20 }, extra));
            // reorder: known fields in reverse order is legal too
            variants.push(Val::Struct(f));
        }
        variants.push(Val::Struct(vec![(2, Val::I32(kind)), (1, Val::Bin(msg.as_bytes().to_vec()))]));
        for var in variants {
            col.evaluations += 1;
            let bytes = rc::encode(prot.wire(), &var);
            let case = || json!({"dir": "appexc-in", "kind": kind, "msg": msg, "prot": prot.name(), "wire": var.show()});
            let r = catch(|| -> Result<(ApplicationException, usize), ThriftException> {
                let mut input = Bytes::from(bytes.clone());
                let e = if prot == Prot::Unsafe {
                    // the unchecked reader's skip() needs the position right after a field header:
                    // that is how ApplicationException::decode calls it
                    with_in!(prot, &mut input, p => ApplicationException::decode(&mut p)?)
                } else {
                    with_in!(prot, &mut input, p => ApplicationException::decode(&mut p)?)
                };
                Ok((e, input.len()))
            });
            match r {
                Caught::Ok(Ok((got, _rem))) => {
                    if got.kind().as_i32() == kind && got.message().as_str() == msg {
                        col.outcome("ok-appexc-in");
                    } else {
                        col.fail(format!("C03|{}|appexc-in", prot.name()), case(), format!("pilota read {:?}", got));
                    }
                }
                Caught::Ok(Err(x)) => col.fail(format!("C03|{}|appexc-in-err", prot.name()), case(), format!("{:?}", x)),
                Caught::Panic(loc, m) => col.fail(format!("C03|{}|appexc-in-{}", prot.name(), panic_sig(&loc, &m)), case(), m),
            }
        }
    }
}

pub fn run(a: &Args) {
    let mut col = Collector::new("C03", a);
    let cfg = SpaceCfg { thorough: a.thorough() };
    let bound = if cfg.thorough { 2 } else { 1 };
    spaces::all_values(&cfg, &mut |space, v| {
        if !col.next_case(space) {
            return;
        }
        if crate::c01::nontrivial(&[v]) {
            col.nontrivial += 1;
        }
        if col.samples.len() < 3 || (col.samples.len() < 12 && col.cur_index() % 7919 == 0) {
            col.sample(json!(v.show()));
        }
        let api = if v.has_bin() && col.cur_index() % 2 == 1 { BinApi::FastStr } else { BinApi::Bytes };
        dir_out(&mut col, v, api);
        dir_in(&mut col, v, api, bound);
    });
    // type-code rejection: every shape of depth <= 1 (quick) / <= 2 (thorough) with typed positions
    {
        let mut shapes = Vec::new();
        if cfg.thorough {
            let mut basis = Vec::new();
            vcore::val::shapes(1, 2, &[1, 2], &mut basis);
            vcore::val::compose(&basis, 2, &[1], &mut shapes);
        } else {
            vcore::val::shapes(1, 2, &[1, 2], &mut shapes);
            // plus the depth-2 wrappers of the compound depth-1 shapes
            let d1 = shapes.clone();
            for v in d1.iter().filter(|v| !v.ty().is_leaf() && v.node_count() <= 3) {
                vcore::val::wrap_all(v, &mut shapes);
            }
        }
        for v in &shapes {
            // an out-of-spec element type in an EMPTY container is unobservable (no element is
            // ever decoded): only values whose containers are all non-empty are used
            if v.ty().is_leaf() || !all_nonempty(v) {
                continue;
            }
            if col.next_case("typecode") {
                col.nontrivial += 1;
                type_codes(&mut col, v);
            }
        }
    }
    // envelopes
    for name_len in [0usize, 1, 127, 128, 300] {
        for mt in 1u8..=4 {
            for seq in vcore::val::int_boundaries(32) {
                if col.next_case("envelope") {
                    col.nontrivial += 1;
                    let e = Envelope { name: vcore::val::bin_of_len(name_len), mtype: mt, seq: seq as i32 };
                    envelopes(&mut col, &e);
                }
            }
        }
    }
    for kind in -1..=12 {
        for msg in ["", "x", "internal error: something failed"] {
            if col.next_case("appexc") {
                col.nontrivial += 1;
                app_exception(&mut col, kind, msg);
            }
        }
    }
    for kind in [i32::MAX, i32::MIN, 127, 128, 65536] {
        if col.next_case("appexc") {
            app_exception(&mut col, kind, "k");
        }
    }
    col.finish(&a.out);
}

pub fn replay(case: &serde_json::Value) -> Vec<(String, String)> {
    let mut a = Args::parse();
    a.progress = None;
    let mut col = Collector::new("C03", &a);
    col.index = 1;
    match case["dir"].as_str().unwrap_or("") {
        "pilota->ref" => {
            let v: Val = serde_json::from_value(case["val"].clone()).unwrap();
            dir_out(&mut col, &v, BinApi::from_name(case["api"].as_str().unwrap()));
        }
        "ref->pilota" => {
            let v: Val = serde_json::from_value(case["val"].clone()).unwrap();
            dir_in(&mut col, &v, BinApi::from_name(case["api"].as_str().unwrap()), 2);
        }
        "typecode" => {
            let v: Val = serde_json::from_value(case["val"].clone()).unwrap();
            type_codes(&mut col, &v);
        }
        "envelope" => {
            let e: Envelope = serde_json::from_value(case["envelope"].clone()).unwrap();
            envelopes(&mut col, &e);
        }
        "appexc" | "appexc-in" => {
            app_exception(&mut col, case["kind"].as_i64().unwrap() as i32, case["msg"].as_str().unwrap());
        }
        _ => {}
    }
    col.failures.iter().map(|(s, g)| (s.clone(), g.detail.clone())).collect()
}

//! C12 — asynchronous decoding equals in-memory decoding for every delivery schedule (runtime
//! level): every poll of the stream is a choice point {deliver all, deliver 1 byte, Pending}.

use crate::aio::{self, Mode, Script};
use crate::c09::SAFE;
use crate::drive::*;
use bytes::Bytes;
use pilota::thrift::{binary, binary_le, compact, ThriftException};
use serde_json::json;
use std::sync::atomic::Ordering::SeqCst;
use vcore::explore::{self, Ctx};
use vcore::refcodec::{self as rc, norm_empty_maps, PosKind};
use vcore::report::{catch, panic_sig, Args, Caught, Collector};
use vcore::val::{self, Val, T};

#[derive(Debug, Clone, PartialEq)]
pub enum Res {
    Ok(Val, usize),
    Err(String),
    Panic(String),
    Exec(String),
}

fn sync_res(prot: Prot, b: &[u8], t: T, api: BinApi) -> Res {
    let total = b.len();
    let input = Bytes::copy_from_slice(b);
    let mut tr = Tracker::default();
    match catch(|| decode_vals(prot, input, &[t], api, false, &mut tr)) {
        Caught::Ok(mut o) => match o.vals.pop() {
            Some(Ok(v)) => Res::Ok(norm_empty_maps(&v), total - o.remaining),
            Some(Err(e)) => Res::Err(err_class(&e)),
            None => Res::Err("none".into()),
        },
        Caught::Panic(loc, msg) => Res::Panic(panic_sig(&loc, &msg)),
    }
}

pub struct AsyncObs {
    pub res: Res,
    pub log: Vec<(u32, u8, u32)>,
    pub polls: u64,
    pub pendings: u64,
}

fn async_res(prot: Prot, b: &[u8], t: T, api: BinApi, mode: Mode, ctx: *mut Ctx) -> AsyncObs {
    let (script, shared) = Script::new(b.to_vec(), mode, ctx);
    let log = script.log.clone();
    let r = catch(|| {
        macro_rules! go {
            ($p:expr) => {{
                let mut p = $p;
                aio::block_on(
                    async {
                        let v = read_val_async(&mut p, t, api, 0).await?;
                        Ok::<_, ThriftException>((v, shared.pos.load(SeqCst)))
                    },
                    &shared,
                )
            }};
        }
        match prot {
            Prot::Binary => go!(binary::TAsyncBinaryProtocol::new(script)),
            Prot::BinaryLe => go!(binary_le::TAsyncBinaryProtocol::new(script)),
            Prot::Compact => go!(compact::TAsyncCompactProtocol::new(script)),
            Prot::Unsafe => unreachable!(),
        }
    });
    let res = match r {
        Caught::Ok(Ok(Ok((v, pos)))) => Res::Ok(norm_empty_maps(&v), pos),
        Caught::Ok(Ok(Err(e))) => Res::Err(err_class(&e)),
        Caught::Ok(Err(x)) => Res::Exec(format!("{:?}", x)),
        Caught::Panic(loc, msg) => Res::Panic(panic_sig(&loc, &msg)),
    };
    let l = log.lock().unwrap().clone();
    AsyncObs { res, log: l, polls: shared.polls.load(SeqCst), pendings: shared.pendings.load(SeqCst) }
}

pub struct Input {
    pub prot: Prot,
    pub t: T,
    pub bytes: Vec<u8>,
    /// length of the message proper (valid inputs carry 16 trailing bytes behind it)
    pub msg_len: usize,
    pub kind: &'static str,
    pub show: String,
}

fn record_states(col: &mut Collector, log: &[(u32, u8, u32)]) {
    let mut last = 3u64;
    for (off, ans, want) in log {
        let st = (*off as u64).min(255) | (last << 8);
        col.states.insert(st);
        col.transitions.insert(st | ((*ans as u64) << 12) | (((*want).min(63) as u64) << 16));
        last = *ans as u64;
    }
}

fn compare(col: &mut Collector, inp: &Input, api: BinApi, sync: &Res, obs: &AsyncObs, sched: serde_json::Value) {
    col.evaluations += 1;
    record_states(col, &obs.log);
    let case = || json!({"prot": inp.prot.name(), "t": inp.t, "bytes": inp.bytes, "msg_len": inp.msg_len, "kind": inp.kind, "api": api.name(), "schedule": sched, "show": inp.show});
    let head = format!("C12|async-{}|{}", inp.prot.name(), if inp.kind == "valid" { "valid" } else { "faulty" });
    match (sync, &obs.res) {
        (Res::Panic(_), _) => col.outcome("skipped-sync-panics"),
        (_, Res::Panic(p)) => {
            col.outcome("async-panic");
            col.fail(format!("{}|async-{}", head, p), case(), p.clone());
        }
        (_, Res::Exec(x)) => {
            col.outcome("executor");
            col.fail(format!("{}|executor:{}", head, x), case(), x.clone());
        }
        (Res::Ok(v, n), Res::Ok(v2, n2)) => {
            if v != v2 {
                col.outcome("value-differs");
                col.fail(
                    format!("{}|value-differs:{}", head, v.first_diff(v2).unwrap_or_default().rsplit('/').next().unwrap_or("")),
                    case(),
                    format!("sync {} async {}", v.show(), v2.show()),
                );
            } else if n != n2 {
                col.outcome("consumed-differs");
                col.fail(format!("{}|consumed-differs", head), case(), format!("sync consumed {} async took {} from the stream", n, n2));
            } else if inp.kind == "valid" && *n2 != inp.msg_len {
                col.outcome("read-past-end");
                col.fail(format!("{}|read-past-message", head), case(), format!("took {} bytes for a {}-byte message", n2, inp.msg_len));
            } else {
                col.outcome("ok=ok");
            }
        }
        (Res::Err(_), Res::Err(_)) => col.outcome("err=err"),
        (Res::Err(e), Res::Ok(v, _)) => {
            col.outcome("async-accepts");
            col.fail(format!("{}|async-accepts-what-sync-rejects", head), case(), format!("sync {} async {}", e, v.show()));
        }
        (Res::Ok(v, _), Res::Err(e)) => {
            col.outcome("async-rejects");
            col.fail(format!("{}|async-rejects-what-sync-accepts:{}", head, e), case(), format!("sync {} async {}", v.show(), e));
        }
        (Res::Exec(_), _) => unreachable!(),
    }
}

pub fn check_input(col: &mut Collector, inp: &Input, api: BinApi, bound: usize, all_below: usize, cap: u64) {
    let sync = sync_res(inp.prot, &inp.bytes, inp.t, api);
    // extremes
    for (mode, name) in [(Mode::All, "all"), (Mode::OneByte, "one-byte"), (Mode::PendingEvery, "pending-every")] {
        let obs = async_res(inp.prot, &inp.bytes, inp.t, api, mode, std::ptr::null_mut());
        compare(col, inp, api, &sync, &obs, json!(name));
    }
    let exhaustive = inp.msg_len <= all_below;
    let b = if exhaustive { usize::MAX } else { bound };
    let st = explore::explore(b, cap, |ctx| {
        if col.slow >= 8 {
            return;
        }
        let t0 = std::time::Instant::now();
        let obs = async_res(inp.prot, &inp.bytes, inp.t, api, Mode::Explore, ctx as *mut Ctx);
        if t0.elapsed().as_millis() > 2000 {
            col.slow += 1;
            col.fail(
                format!("C12|async-{}|slow", inp.prot.name()),
                json!({"prot": inp.prot.name(), "t": inp.t, "bytes": inp.bytes, "msg_len": inp.msg_len, "kind": inp.kind, "api": api.name(), "schedule": ctx.choices()}),
                format!("{} ms for one schedule", t0.elapsed().as_millis()),
            );
        }
        let sched = json!(ctx.choices());
        compare(col, inp, api, &sync, &obs, sched);
        col.count("polls", obs.polls);
        col.count("pendings", obs.pendings);
    });
    if exhaustive {
        col.count("inputs_with_all_schedules", 1);
    }
    if st.capped {
        col.caps.push(format!("schedule cap {} hit for an input of {} bytes", cap, inp.msg_len));
    }
}

fn valid_inputs(thorough: bool) -> Vec<Val> {
    let mut s = Vec::new();
    val::shapes(1, 2, &[1, 2, 15], &mut s);
    let basis = s.clone();
    for v in basis.iter().filter(|v| !v.ty().is_leaf() && v.node_count() <= 3) {
        val::wrap_all(v, &mut s);
    }
    // a bool field (carried in the compact field header) followed by bools that are not
    for follow in [
        Val::List(T::Bool, vec![Val::Bool(false), Val::Bool(true), Val::Bool(false)]),
        Val::Set(T::Bool, vec![Val::Bool(false)]),
        Val::Map(T::I8, T::Bool, vec![(Val::I8(1), Val::Bool(false))]),
        Val::Map(T::Bool, T::I8, vec![(Val::Bool(false), Val::I8(1))]),
    ] {
        let inner = Val::Struct(vec![(1, Val::Bool(true)), (2, follow.clone())]);
        s.push(inner.clone());
        s.push(Val::Struct(vec![(1, inner.clone()), (2, Val::I32(5))]));
        s.push(Val::List(T::Struct, vec![inner]));
    }
    // scalars at boundaries, top level and as a field
    for x in val::scalar_alphabet(false) {
        let keep = match &x {
            Val::I8(i) => [0, 1, -1, 127, -128].contains(i),
            Val::Bin(b) => b.len() <= 4097,
            _ => true,
        };
        if keep {
            s.push(Val::Struct(vec![(1, x.clone()), (2, Val::Bool(true))]));
            if thorough {
                s.push(x);
            }
        }
    }
    s
}

pub fn run(a: &Args) {
    let mut col = Collector::new("C12", a);
    let th = a.thorough();
    let (bound, all_below, cap) = if th { (2usize, 12usize, 200_000u64) } else { (1usize, 9usize, 20_000u64) };
    let vals = valid_inputs(th);
    for v in &vals {
        for prot in SAFE {
            let wire = prot.wire();
            let (enc, ann) = rc::encode_ann(wire, v);
            let show = v.show();
            let apis: &[BinApi] = if v.has_bin() { &[BinApi::Bytes, BinApi::Str] } else { &[BinApi::Bytes] };
            if col.next_case("valid") {
                col.nontrivial += 1;
                let mut bytes = enc.clone();
                bytes.extend_from_slice(&[0xEE; 16]);
                let inp = Input { prot, t: v.ty(), bytes, msg_len: enc.len(), kind: "valid", show: show.clone() };
                if col.samples.len() < 6 {
                    col.sample(json!({"valid": show, "prot": prot.name(), "len": enc.len()}));
                }
                for api in apis {
                    check_input(&mut col, &inp, *api, bound, all_below, cap);
                }
                // the value as an unknown field: header, skip, field end, next header - through the
                // async reader under the three extreme schedules, against the in-memory reader
                if crate::c07::run_in_struct(prot, v).is_ok() {
                    for (mode, mname) in [(Mode::All, "all"), (Mode::OneByte, "one-byte"), (Mode::PendingEvery, "pending-every")] {
                        col.evaluations += 1;
                        if let Err((sig, detail)) = crate::c07::run_in_struct_async(prot, mode, v) {
                            col.outcome("skip-differs");
                            col.fail(
                                format!("C12|async-{}|skip-as-unknown-field|{}", prot.name(), sig),
                                json!({"prot": prot.name(), "t": v.ty(), "bytes": inp.bytes, "msg_len": inp.msg_len, "kind": "valid", "api": "bytes", "schedule": mname, "val": v}),
                                detail,
                            );
                        } else {
                            col.outcome("skip-agrees");
                        }
                    }
                }
            }
            // faults: every truncation, every length/count overwrite
            if enc.len() <= 40 {
                for n in 0..enc.len() {
                    if col.next_case("trunc") {
                        col.nontrivial += 1;
                        let inp = Input { prot, t: v.ty(), bytes: enc[..n].to_vec(), msg_len: n, kind: "trunc", show: show.clone() };
                        check_input(&mut col, &inp, apis[apis.len() - 1], if th { 1 } else { 0 }, 6, cap);
                    }
                }
                for an in ann.iter().filter(|x| matches!(x.kind, PosKind::BinLen | PosKind::Count)) {
                    let rem = (enc.len() - an.off - an.len) as i64;
                    for val in [-1i64, 0, 1, rem - 1, rem + 1, 0x7fff_ffff] {
                        if !col.next_case("overwrite") {
                            continue;
                        }
                        col.nontrivial += 1;
                        let rep: Vec<u8> = match wire {
                            rc::Proto::Binary => (val as i32).to_be_bytes().to_vec(),
                            rc::Proto::BinaryLe => (val as i32).to_le_bytes().to_vec(),
                            rc::Proto::Compact => {
                                let mut e = rc::Enc::new(wire);
                                e.varint(val as u32 as u64);
                                e.out
                            }
                        };
                        let mut b = enc[..an.off].to_vec();
                        b.extend_from_slice(&rep);
                        b.extend_from_slice(&enc[an.off + an.len..]);
                        let n = b.len();
                        let inp = Input { prot, t: v.ty(), bytes: b, msg_len: n, kind: "overwrite", show: show.clone() };
                        if col.samples.len() < 10 {
                            col.sample(json!({"overwrite": show, "prot": prot.name(), "bytes": inp.bytes}));
                        }
                        check_input(&mut col, &inp, apis[apis.len() - 1], if th { 1 } else { 0 }, 6, cap);
                    }
                }
            }
        }
    }
    col.finish(&a.out);
}

pub fn replay(case: &serde_json::Value) -> Vec<(String, String)> {
    let mut a = Args::parse();
    a.progress = None;
    let mut col = Collector::new("C12", &a);
    col.index = 1;
    let kind: &'static str = match case["kind"].as_str().unwrap_or("") {
        "valid" => "valid",
        "trunc" => "trunc",
        _ => "overwrite",
    };
    let inp = Input {
        prot: Prot::from_name(case["prot"].as_str().unwrap()),
        t: serde_json::from_value(case["t"].clone()).unwrap(),
        bytes: serde_json::from_value(case["bytes"].clone()).unwrap(),
        msg_len: case["msg_len"].as_u64().unwrap() as usize,
        kind,
        show: String::new(),
    };
    let api = BinApi::from_name(case["api"].as_str().unwrap());
    if !case["val"].is_null() {
        // a skip-as-unknown-field failure: the recorded value under the recorded extreme schedule
        let v: Val = serde_json::from_value(case["val"].clone()).unwrap();
        let mode = match case["schedule"].as_str().unwrap_or("all") {
            "all" => Mode::All,
            "one-byte" => Mode::OneByte,
            _ => Mode::PendingEvery,
        };
        if crate::c07::run_in_struct(inp.prot, &v).is_ok() {
            if let Err((sig, detail)) = crate::c07::run_in_struct_async(inp.prot, mode, &v) {
                return vec![(format!("C12|async-{}|skip-as-unknown-field|{}", inp.prot.name(), sig), detail)];
            }
        }
        return vec![];
    }
    let sync = sync_res(inp.prot, &inp.bytes, inp.t, api);
    match &case["schedule"] {
        serde_json::Value::String(s) => {
            let mode = match s.as_str() {
                "all" => Mode::All,
                "one-byte" => Mode::OneByte,
                _ => Mode::PendingEvery,
            };
            let obs = async_res(inp.prot, &inp.bytes, inp.t, api, mode, std::ptr::null_mut());
            compare(&mut col, &inp, api, &sync, &obs, case["schedule"].clone());
        }
        v => {
            let prefix: Vec<usize> = serde_json::from_value(v.clone()).unwrap();
            let mut ctx = Ctx::new(prefix);
            let obs = async_res(inp.prot, &inp.bytes, inp.t, api, Mode::Explore, &mut ctx as *mut Ctx);
            compare(&mut col, &inp, api, &sync, &obs, v.clone());
        }
    }
    col.failures.iter().map(|(s, g)| (s.clone(), g.detail.clone())).collect()
}

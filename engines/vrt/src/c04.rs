//! C04 — reported Thrift size equals the number of bytes encoding writes (runtime level).
//!
//! The writer and a *separate* length-protocol instance are driven in lockstep, op by op, in the
//! order generated `encode()` / `size()` use; the running sums are compared after every op so the
//! first diverging op is the signature.

use crate::drive::*;
use crate::spaces::{self, SpaceCfg};
use bytes::{Bytes, BytesMut};
use faststr::FastStr;
use linkedbytes::LinkedBytes;
use pilota::thrift::{
    binary, binary_le, binary_unsafe, compact, TLengthProtocol, TLengthProtocolExt, TListIdentifier,
    TMapIdentifier, TMessageIdentifier, TMessageType, TOutputProtocol, TOutputProtocolExt,
    TSetIdentifier, ThriftException,
};
use serde_json::json;
use vcore::report::{catch, panic_sig, Args, Caught, Collector};
use vcore::val::Val;

pub struct Lock {
    pub sum: usize,
    pub first_div: Option<(String, usize, usize)>,
    pub ops: u64,
    /// abstract state = (previous op, struct nesting depth<=3); transition = state x op x (len class)
    pub prev: u64,
    pub depth: u64,
    pub states: std::collections::BTreeSet<u64>,
    pub transitions: std::collections::BTreeSet<u64>,
}

fn op_code(op: &str) -> u64 {
    let mut h: u64 = 0xcbf29ce484222325;
    for b in op.bytes() {
        h = (h ^ b as u64).wrapping_mul(0x100000001b3);
    }
    h & 0xffff
}

impl Lock {
    fn new() -> Lock {
        Lock { sum: 0, first_div: None, ops: 0, prev: 0, depth: 0, states: Default::default(), transitions: Default::default() }
    }
    fn step(&mut self, op: &str, add: usize, cur: usize) {
        let oc = op_code(op);
        if op == "struct_end" {
            self.depth = self.depth.saturating_sub(1);
        }
        let st = self.prev | (self.depth.min(3) << 16);
        self.states.insert(st);
        self.transitions.insert(st | (oc << 20) | ((add.min(11) as u64) << 40));
        self.prev = oc;
        if op == "struct_begin" {
            self.depth += 1;
        }
        self.sum += add;
        self.ops += 1;
        if self.first_div.is_none() && self.sum != cur {
            self.first_div = Some((op.to_string(), self.sum, cur));
        }
    }
}

/// ext: use the `write_*_field` / `*_field_len` helpers of the Ext traits for leaf fields (what
/// generated code calls)
fn lockstep<P: TOutputProtocol, L: TLengthProtocol>(
    p: &mut P,
    l: &mut L,
    v: &Val,
    api: BinApi,
    ext: bool,
    cur: &dyn Fn(&mut P) -> usize,
    st: &mut Lock,
) -> Result<(), ThriftException> {
    macro_rules! leaf {
        ($name:expr, $w:expr, $len:expr) => {{
            $w?;
            let n = $len;
            let c = cur(p);
            st.step($name, n, c);
        }};
    }
    match v {
        Val::Bool(b) => leaf!("bool", p.write_bool(*b), l.bool_len(*b)),
        Val::I8(x) => leaf!("i8", p.write_i8(*x), l.i8_len(*x)),
        Val::I16(x) => leaf!("i16", p.write_i16(*x), l.i16_len(*x)),
        Val::I32(x) => leaf!("i32", p.write_i32(*x), l.i32_len(*x)),
        Val::I64(x) => leaf!("i64", p.write_i64(*x), l.i64_len(*x)),
        Val::Double(bits) => {
            leaf!("double", p.write_double(f64::from_bits(*bits)), l.double_len(f64::from_bits(*bits)))
        }
        Val::Uuid(u) => leaf!("uuid", p.write_uuid(*u), l.uuid_len(*u)),
        Val::Bin(b) => match api {
            BinApi::Bytes => leaf!("bytes", p.write_bytes(Bytes::from(b.clone())), l.bytes_len(b)),
            BinApi::Str => {
                let s = unsafe { std::str::from_utf8_unchecked(b) };
                leaf!("string", p.write_string(s), l.string_len(s))
            }
            BinApi::FastStr => {
                let s = unsafe { FastStr::from_bytes_unchecked(Bytes::from(b.clone())) };
                leaf!("faststr", p.write_faststr(s.clone()), l.faststr_len(&s))
            }
            BinApi::Vec => leaf!("bytes_vec", p.write_bytes_vec(b), l.bytes_vec_len(b)),
        },
        Val::Struct(fields) => {
            leaf!("struct_begin", p.write_struct_begin(&IDENT), l.struct_begin_len(&IDENT));
            for (id, fv) in fields {
                if ext && fv.ty().is_leaf() {
                    match fv {
                        Val::Bool(b) => {
                            leaf!("bool_field", p.write_bool_field(*id, *b), l.bool_field_len(Some(*id), *b))
                        }
                        Val::I8(x) => leaf!("i8_field", p.write_i8_field(*id, *x), l.i8_field_len(Some(*id), *x)),
                        Val::I16(x) => {
                            leaf!("i16_field", p.write_i16_field(*id, *x), l.i16_field_len(Some(*id), *x))
                        }
                        Val::I32(x) => {
                            leaf!("i32_field", p.write_i32_field(*id, *x), l.i32_field_len(Some(*id), *x))
                        }
                        Val::I64(x) => {
                            leaf!("i64_field", p.write_i64_field(*id, *x), l.i64_field_len(Some(*id), *x))
                        }
                        Val::Double(bits) => leaf!(
                            "double_field",
                            p.write_double_field(*id, f64::from_bits(*bits)),
                            l.double_field_len(Some(*id), f64::from_bits(*bits))
                        ),
                        Val::Uuid(u) => {
                            leaf!("uuid_field", p.write_uuid_field(*id, *u), l.uuid_field_len(Some(*id), *u))
                        }
                        Val::Bin(b) => match api {
                            BinApi::Bytes => leaf!(
                                "bytes_field",
                                p.write_bytes_field(*id, Bytes::from(b.clone())),
                                l.bytes_field_len(Some(*id), b)
                            ),
                            BinApi::Str => {
                                let s = unsafe { std::str::from_utf8_unchecked(b) };
                                leaf!("string_field", p.write_string_field(*id, s), l.string_field_len(Some(*id), s))
                            }
                            BinApi::FastStr => {
                                let s = unsafe { FastStr::from_bytes_unchecked(Bytes::from(b.clone())) };
                                leaf!(
                                    "faststr_field",
                                    p.write_faststr_field(*id, s.clone()),
                                    l.faststr_field_len(Some(*id), &s)
                                )
                            }
                            BinApi::Vec => leaf!(
                                "bytes_vec_field",
                                p.write_bytes_vec_field(*id, b),
                                l.bytes_vec_field_len(Some(*id), b)
                            ),
                        },
                        _ => unreachable!(),
                    }
                    continue;
                }
                leaf!("field_begin", p.write_field_begin(tt(fv.ty()), *id), l.field_begin_len(tt(fv.ty()), Some(*id)));
                lockstep(p, l, fv, api, ext, cur, st)?;
                leaf!("field_end", p.write_field_end(), l.field_end_len());
            }
            leaf!("field_stop", p.write_field_stop(), l.field_stop_len());
            leaf!("struct_end", p.write_struct_end(), l.struct_end_len());
        }
        Val::List(t, e) => {
            let id = TListIdentifier { element_type: tt(*t), size: e.len() };
            leaf!("list_begin", p.write_list_begin(id), l.list_begin_len(id));
            for x in e {
                lockstep(p, l, x, api, ext, cur, st)?;
            }
            leaf!("list_end", p.write_list_end(), l.list_end_len());
        }
        Val::Set(t, e) => {
            let id = TSetIdentifier { element_type: tt(*t), size: e.len() };
            leaf!("set_begin", p.write_set_begin(id), l.set_begin_len(id));
            for x in e {
                lockstep(p, l, x, api, ext, cur, st)?;
            }
            leaf!("set_end", p.write_set_end(), l.set_end_len());
        }
        Val::Map(k, vt, e) => {
            let id = TMapIdentifier { key_type: tt(*k), value_type: tt(*vt), size: e.len() };
            leaf!("map_begin", p.write_map_begin(id), l.map_begin_len(id));
            for (a, b) in e {
                lockstep(p, l, a, api, ext, cur, st)?;
                lockstep(p, l, b, api, ext, cur, st)?;
            }
            leaf!("map_end", p.write_map_end(), l.map_end_len());
        }
    }
    Ok(())
}

fn lb_len(lb: &LinkedBytes) -> usize {
    lb.iter_list().map(|n| n.as_ref().len()).sum::<usize>() + lb.bytes().len()
}

pub struct Out {
    pub lock: Lock,
    pub total_written: usize,
    pub zc_len: usize,
    pub zc_nodes_bytes: usize,
}

/// One lockstep execution on (prot, buf).
pub fn exec(prot: Prot, buf: BufKind, v: &Val, api: BinApi, ext: bool) -> Result<Out, ThriftException> {
    let mut st = Lock::new();
    let zc = buf == BufKind::LinkedZc;
    macro_rules! bm {
        ($w:expr, $l:expr) => {{
            let mut b = BytesMut::new();
            {
                let mut p = $w(&mut b);
                let mut l = $l;
                lockstep(&mut p, &mut l, v, api, ext, &|p| p.buf_mut().len(), &mut st)?;
            }
            Ok(Out { lock: st, total_written: b.len(), zc_len: 0, zc_nodes_bytes: 0 })
        }};
    }
    macro_rules! lb {
        ($w:expr, $l:expr) => {{
            let mut b = LinkedBytes::new();
            let zcl;
            {
                let mut p = $w(&mut b);
                let mut l = $l;
                lockstep(&mut p, &mut l, v, api, ext, &|p| lb_len(p.buf_mut()), &mut st)?;
                zcl = p.zero_copy_len();
            }
            let nodes: usize = b
                .iter_list()
                .map(|n| match n {
                    linkedbytes::Node::BytesMut(_) => 0,
                    other => other.as_ref().len(),
                })
                .sum();
            Ok(Out { lock: st, total_written: lb_len(&b), zc_len: zcl, zc_nodes_bytes: nodes })
        }};
    }
    match (prot, buf) {
        (Prot::Binary, BufKind::BytesMut) => {
            bm!(|b| binary::TBinaryProtocol::new(b, false), binary::TBinaryProtocol::new((), false))
        }
        (Prot::Binary, _) => lb!(|b| binary::TBinaryProtocol::new(b, zc), binary::TBinaryProtocol::new((), zc)),
        (Prot::BinaryLe, BufKind::BytesMut) => {
            bm!(|b| binary_le::TBinaryProtocol::new(b, false), binary_le::TBinaryProtocol::new((), false))
        }
        (Prot::BinaryLe, _) => {
            lb!(|b| binary_le::TBinaryProtocol::new(b, zc), binary_le::TBinaryProtocol::new((), zc))
        }
        (Prot::Compact, BufKind::BytesMut) => bm!(
            |b| compact::TCompactOutputProtocol::new(b, false),
            compact::TCompactOutputProtocol::new((), false)
        ),
        (Prot::Compact, _) => {
            lb!(|b| compact::TCompactOutputProtocol::new(b, zc), compact::TCompactOutputProtocol::new((), zc))
        }
        (Prot::Unsafe, _) => {
            // size first (that is the contract), then write into a window of exactly that size
            let window = vdrive::drive::pilota_size_zc(Prot::Unsafe, &[v], api, zc);
            let mut tr = Tracker::default();
            let enc = encode_vals(Prot::Unsafe, buf, &[v], api, &mut tr, window)?;
            st.sum = window;
            st.ops = 1;
            if enc.bytes.len() != window {
                st.first_div = Some(("total".into(), window, enc.bytes.len()));
            }
            if !enc.sentinel_ok {
                st.first_div = Some(("out-of-window".into(), window, enc.bytes.len()));
            }
            Ok(Out { lock: st, total_written: enc.bytes.len(), zc_len: enc.zc_len, zc_nodes_bytes: enc.zc_len })
        }
    }
}

fn check_one(col: &mut Collector, v: &Val, prot: Prot, buf: BufKind, api: BinApi, ext: bool) {
    col.evaluations += 1;
    let case = || json!({"val": v, "prot": prot.name(), "buf": buf.name(), "api": api.name(), "ext": ext, "show": v.show()});
    match catch(|| exec(prot, buf, v, api, ext)) {
        Caught::Ok(Ok(o)) => {
            col.count("ops", o.lock.ops);
            col.states.extend(o.lock.states.iter().copied());
            col.transitions.extend(o.lock.transitions.iter().copied());
            if let Some((op, sum, cur)) = o.lock.first_div {
                col.outcome("diverged");
                col.fail(
                    format!("C04|{}|{}len-diverges-at:{}", prot.name(), if ext { "ext-" } else { "" }, op),
                    case(),
                    format!("sum of *_len = {} but {} bytes written after op {}", sum, cur, op),
                );
            } else if o.zc_len != o.zc_nodes_bytes {
                col.outcome("zc-accounting");
                col.fail(
                    format!("C04|{}/{}|zero_copy_len", prot.name(), buf.name()),
                    case(),
                    format!("zero_copy_len()={} but {} bytes are attached as nodes", o.zc_len, o.zc_nodes_bytes),
                );
            } else {
                col.outcome(if o.zc_len > 0 { "ok-zero-copy" } else { "ok" });
            }
        }
        Caught::Ok(Err(e)) => {
            col.outcome("err");
            col.fail(format!("C04|{}|write-err:{}", prot.name(), err_class(&e)), case(), format!("{:?}", e));
        }
        Caught::Panic(loc, msg) => {
            col.outcome("panic");
            col.fail(format!("C04|{}|{}", prot.name(), panic_sig(&loc, &msg)), case(), msg);
        }
    }
}

fn envelope_case(col: &mut Collector, name_len: usize, mt: TMessageType, seq: i32) {
    let name = FastStr::new(String::from_utf8(vcore::val::bin_of_len(name_len)).unwrap());
    let id = TMessageIdentifier::new(name, mt, seq);
    for prot in [Prot::Binary, Prot::BinaryLe, Prot::Compact, Prot::Unsafe] {
        col.evaluations += 1;
        let r = catch(|| -> Result<(usize, usize), ThriftException> {
            let mut b = BytesMut::new();
            match prot {
                Prot::Binary => {
                    let n = binary::TBinaryProtocol::new((), false).message_begin_len(&id);
                    let mut p = binary::TBinaryProtocol::new(&mut b, false);
                    p.write_message_begin(&id)?;
                    p.write_message_end()?;
                    Ok((n, b.len()))
                }
                Prot::BinaryLe => {
                    let n = binary_le::TBinaryProtocol::new((), false).message_begin_len(&id);
                    let mut p = binary_le::TBinaryProtocol::new(&mut b, false);
                    p.write_message_begin(&id)?;
                    p.write_message_end()?;
                    Ok((n, b.len()))
                }
                Prot::Compact => {
                    let n = compact::TCompactOutputProtocol::new((), false).message_begin_len(&id);
                    let mut p = compact::TCompactOutputProtocol::new(&mut b, false);
                    p.write_message_begin(&id)?;
                    p.write_message_end()?;
                    Ok((n, b.len()))
                }
                Prot::Unsafe => {
                    let mut d: [u8; 0] = [];
                    let s: &'static mut [u8] = unsafe { std::mem::transmute(&mut d[..]) };
                    let n = unsafe { binary_unsafe::TBinaryUnsafeOutputProtocol::new((), s, false) }
                        .message_begin_len(&id);
                    b.resize(n + SLACK, SENTINEL);
                    let s: &'static mut [u8] = unsafe { std::slice::from_raw_parts_mut(b.as_mut_ptr(), n + SLACK) };
                    let mut p = unsafe { binary_unsafe::TBinaryUnsafeOutputProtocol::new(&mut b, s, false) };
                    p.write_message_begin(&id)?;
                    p.write_message_end()?;
                    Ok((n, p.index()))
                }
            }
        });
        let case = json!({"envelope": {"name_len": name_len, "mtype": mt as u8, "seq": seq}, "prot": prot.name()});
        match r {
            Caught::Ok(Ok((n, w))) if n == w => col.outcome("ok-envelope"),
            Caught::Ok(Ok((n, w))) => col.fail(
                format!("C04|{}|message_begin_len", prot.name()),
                case,
                format!("message_begin_len={} written={}", n, w),
            ),
            Caught::Ok(Err(e)) => col.fail(format!("C04|{}|envelope-err", prot.name()), case, format!("{:?}", e)),
            Caught::Panic(loc, msg) => {
                col.fail(format!("C04|{}|envelope-{}", prot.name(), panic_sig(&loc, &msg)), case, msg)
            }
        }
    }
}

pub fn run(a: &Args) {
    let mut col = Collector::new("C04", a);
    let cfg = SpaceCfg { thorough: a.thorough() };
    let th = cfg.thorough;
    spaces::all_values(&cfg, &mut |space, v| {
        if !col.next_case(space) {
            return;
        }
        if crate::c01::nontrivial(&[v]) {
            col.nontrivial += 1;
        }
        if col.samples.len() < 3 || (col.samples.len() < 12 && col.cur_index() % 7919 == 0) {
            col.sample(json!(v.show()));
        }
        let apis: Vec<BinApi> = if !v.has_bin() {
            vec![BinApi::Bytes]
        } else if th || v.node_count() <= 6 {
            ALL_API.to_vec()
        } else {
            vec![BinApi::Bytes, BinApi::FastStr]
        };
        for api in apis {
            for prot in ALL_PROT {
                for buf in ALL_BUF {
                    check_one(&mut col, v, prot, buf, api, false);
                    if prot != Prot::Unsafe && matches!(v, Val::Struct(_)) {
                        check_one(&mut col, v, prot, buf, api, true);
                    }
                }
            }
        }
    });
    // envelopes
    for name_len in [0usize, 1, 127, 128, 300, 16384] {
        for mt in [TMessageType::Call, TMessageType::Reply, TMessageType::Exception, TMessageType::OneWay] {
            for seq in vcore::val::int_boundaries(32) {
                if col.next_case("envelope") {
                    col.nontrivial += 1;
                    envelope_case(&mut col, name_len, mt, seq as i32);
                }
            }
        }
    }
    col.finish(&a.out);
}

pub fn replay(case: &serde_json::Value) -> Vec<(String, String)> {
    let mut a = Args::parse();
    a.progress = None;
    let mut col = Collector::new("C04", &a);
    col.index = 1;
    if case.get("envelope").is_some() {
        let e = &case["envelope"];
        let mt = match e["mtype"].as_u64().unwrap() {
            1 => TMessageType::Call,
            2 => TMessageType::Reply,
            3 => TMessageType::Exception,
            _ => TMessageType::OneWay,
        };
        envelope_case(&mut col, e["name_len"].as_u64().unwrap() as usize, mt, e["seq"].as_i64().unwrap() as i32);
    } else {
        let v: Val = serde_json::from_value(case["val"].clone()).expect("val");
        check_one(
            &mut col,
            &v,
            Prot::from_name(case["prot"].as_str().unwrap()),
            BufKind::from_name(case["buf"].as_str().unwrap()),
            BinApi::from_name(case["api"].as_str().unwrap()),
            case["ext"].as_bool().unwrap_or(false),
        );
    }
    col.failures.iter().map(|(s, g)| (s.clone(), g.detail.clone())).collect()
}

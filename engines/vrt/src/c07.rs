//! C07 — skipping a Thrift value consumes exactly that value.

use crate::aio::{self, Mode, Script};
use crate::drive::*;
use crate::spaces::{self, SpaceCfg};
use vdrive::with_in;
use bytes::Bytes;
use pilota::thrift::{
    binary, binary_le, compact, ProtocolExceptionKind, TAsyncInputProtocol, TInputProtocol, ThriftException,
};
use serde_json::json;
use std::sync::atomic::Ordering::SeqCst;
use vcore::refcodec as rc;
use vcore::report::{catch, panic_sig, Args, Caught, Collector};
use vcore::val::{self, Val, T};

#[derive(Clone, Copy, PartialEq, Eq, Debug)]
pub enum Reader {
    Sync(Prot),
    Async(Prot, Mode),
}

impl Reader {
    fn name(&self) -> String {
        match self {
            Reader::Sync(p) => p.name().to_string(),
            Reader::Async(p, _) => format!("async-{}", p.name()),
        }
    }
    fn prot(&self) -> Prot {
        match self {
            Reader::Sync(p) | Reader::Async(p, _) => *p,
        }
    }
}

fn depth_limit(e: &ThriftException) -> bool {
    matches!(e, ThriftException::Protocol(p) if p.kind() == ProtocolExceptionKind::DepthLimit)
}

/// what follows the skipped value
fn follower() -> Val {
    // delta-encoded ids in compact: a fresh reader and a reader that skipped must agree
    Val::Struct(vec![(1, Val::I32(77)), (2, Val::Bool(true)), (4, Val::Bin(b"zz".to_vec()))])
}

#[derive(Debug)]
enum Obs {
    /// (count returned (sync only), bytes consumed, follower decoded ok)
    Ok(Option<usize>, usize, Result<(), String>),
    Err(bool /*depth limit*/, String),
    Panic(String),
    Exec(String),
}

/// top-level skip of `v` followed by `trail`, then decode of the follower (if any)
fn run_top(r: Reader, v: &Val, bytes: &[u8], vlen: usize, with_follower: bool) -> Obs {
    let t = v.ty();
    match r {
        Reader::Sync(prot) => {
            let mut input = Bytes::copy_from_slice(bytes);
            let total = input.len();
            let res = catch(|| -> Result<(usize, usize, Result<(), String>), ThriftException> {
                if prot == Prot::Unsafe {
                    let mut p = unsafe { pilota::thrift::binary_unsafe::TBinaryUnsafeInputProtocol::new(&mut input) };
                    let n = p.skip_till_depth(tt(t), 64)?;
                    let mut tr = Tracker::default();
                    let f = if with_follower {
                        let mut c = RCtx::new(BinApi::Bytes, false, &mut tr);
                        match read_val(&mut p, T::Struct, &mut c, 0) {
                            Ok(x) if x == follower() => Ok(()),
                            Ok(x) => Err(format!("follower read as {}", x.show())),
                            Err(e) => Err(format!("follower err {}", err_class(&e))),
                        }
                    } else {
                        Ok(())
                    };
                    let idx = p.index();
                    drop(p);
                    let consumed = (total - input.len()) + idx;
                    let flen = if with_follower { rc::encode(prot.wire(), &follower()).len() } else { 0 };
                    Ok((n, consumed - if f.is_ok() { flen } else { 0 }, f))
                } else {
                    with_in!(prot, &mut input, p => {
                        let n = p.skip(tt(t))?;
                        let consumed = total - p.buf().len();
                        let mut tr = Tracker::default();
                        let f = if with_follower {
                            let mut c = RCtx::new(BinApi::Bytes, false, &mut tr);
                            match read_val(&mut p, T::Struct, &mut c, 0) {
                                Ok(x) if x == follower() => Ok(()),
                                Ok(x) => Err(format!("follower read as {}", x.show())),
                                Err(e) => Err(format!("follower err {}", err_class(&e))),
                            }
                        } else { Ok(()) };
                        Ok((n, consumed, f))
                    })
                }
            });
            match res {
                Caught::Ok(Ok((n, c, f))) => Obs::Ok(Some(n), c, f),
                Caught::Ok(Err(e)) => Obs::Err(depth_limit(&e), format!("{}:{}", err_class(&e), e.message())),
                Caught::Panic(loc, msg) => Obs::Panic(panic_sig(&loc, &msg)),
            }
        }
        Reader::Async(prot, mode) => {
            let _ = vlen;
            let (script, shared) = Script::new(bytes.to_vec(), mode, std::ptr::null_mut());
            let res = catch(|| {
                macro_rules! go {
                    ($p:expr) => {{
                        let mut p = $p;
                        aio::block_on(
                            async {
                                p.skip(tt(t)).await?;
                                let consumed = shared.pos.load(SeqCst);
                                let f = if with_follower {
                                    match read_val_async(&mut p, T::Struct, BinApi::Bytes, 0).await {
                                        Ok(x) if x == follower() => Ok(()),
                                        Ok(x) => Err(format!("follower read as {}", x.show())),
                                        Err(e) => Err(format!("follower err {}", err_class(&e))),
                                    }
                                } else {
                                    Ok(())
                                };
                                Ok::<_, ThriftException>((consumed, f))
                            },
                            &shared,
                        )
                    }};
                }
                match prot {
                    Prot::Binary => go!(binary::TAsyncBinaryProtocol::new(script)),
                    Prot::BinaryLe => go!(binary_le::TAsyncBinaryProtocol::new(script)),
                    Prot::Compact => go!(compact::TAsyncCompactProtocol::new(script)),
                    Prot::Unsafe => unreachable!(),
                }
            });
            match res {
                Caught::Ok(Ok(Ok((c, f)))) => Obs::Ok(None, c, f),
                Caught::Ok(Ok(Err(e))) => Obs::Err(depth_limit(&e), format!("{}:{}", err_class(&e), e.message())),
                Caught::Ok(Err(x)) => Obs::Exec(format!("{:?}", x)),
                Caught::Panic(loc, msg) => Obs::Panic(panic_sig(&loc, &msg)),
            }
        }
    }
}

/// in-struct skip (sync only): {10: V, 11: i8 5} -> field_begin, skip, field_end, next field must
/// be (i8, 11) = 5, then stop. This is how generated code and the unchecked reader's `skip`
/// contract (called right after a field header) use it.
pub(crate) fn run_in_struct(prot: Prot, v: &Val) -> Result<(), (String, String)> {
    let outer = Val::Struct(vec![(10, v.clone()), (11, Val::I8(5))]);
    let bytes = rc::encode(prot.wire(), &outer);
    let vlen = rc::encode(prot.wire(), v).len();
    let mut input = Bytes::from(bytes);
    let total = input.len();
    let r = catch(|| -> Result<Result<(), (String, String)>, ThriftException> {
        with_in!(prot, &mut input, p => {
            p.read_struct_begin()?;
            let f = p.read_field_begin()?;
            if f.id != Some(10) { return Ok(Err(("in-struct-first-field".into(), format!("{:?}", f)))); }
            let n = p.skip(f.field_type)?;
            p.read_field_end()?;
            let expect = if prot == Prot::Compact && matches!(v, Val::Bool(_)) { 0 } else { vlen };
            if n != expect {
                return Ok(Err(("in-struct-count".into(), format!("skip returned {} for a {}-byte value", n, expect))));
            }
            let f2 = p.read_field_begin()?;
            if f2.id != Some(11) || f2.field_type != pilota::thrift::TType::I8 {
                return Ok(Err(("in-struct-next-field".into(), format!("next field read as {:?}", f2))));
            }
            let x = p.read_i8()?;
            p.read_field_end()?;
            let f3 = p.read_field_begin()?;
            if x != 5 || f3.field_type != pilota::thrift::TType::Stop {
                return Ok(Err(("in-struct-next-value".into(), format!("value {} then {:?}", x, f3))));
            }
            p.read_struct_end()?;
            Ok(Ok(()))
        })
    });
    let _ = total;
    match r {
        Caught::Ok(Ok(x)) => x,
        Caught::Ok(Err(e)) => Err(("in-struct-err".into(), format!("{}:{}", err_class(&e), e.message()))),
        Caught::Panic(loc, msg) => Err((format!("in-struct-{}", panic_sig(&loc, &msg)), msg)),
    }
}

/// the same in-struct sequence through the async readers: a skipped value must leave the reader's
/// field-id context (compact) exactly as a decoded one would
pub(crate) fn run_in_struct_async(prot: Prot, mode: Mode, v: &Val) -> Result<(), (String, String)> {
    let outer = Val::Struct(vec![(10, v.clone()), (11, Val::I8(5))]);
    let bytes = rc::encode(prot.wire(), &outer);
    let (script, shared) = Script::new(bytes, mode, std::ptr::null_mut());
    let res = catch(|| {
        macro_rules! go {
            ($p:expr) => {{
                let mut p = $p;
                aio::block_on(
                    async {
                        p.read_struct_begin().await?;
                        let f = p.read_field_begin().await?;
                        if f.id != Some(10) {
                            return Ok(Err(("in-struct-first-field".to_string(), format!("{:?}", f))));
                        }
                        p.skip(f.field_type).await?;
                        p.read_field_end().await?;
                        let f2 = p.read_field_begin().await?;
                        if f2.id != Some(11) || f2.field_type != pilota::thrift::TType::I8 {
                            return Ok(Err(("in-struct-next-field".to_string(), format!("next field read as {:?}", f2))));
                        }
                        let x = p.read_i8().await?;
                        p.read_field_end().await?;
                        let f3 = p.read_field_begin().await?;
                        if x != 5 || f3.field_type != pilota::thrift::TType::Stop {
                            return Ok(Err(("in-struct-next-value".to_string(), format!("value {} then {:?}", x, f3))));
                        }
                        p.read_struct_end().await?;
                        Ok::<_, ThriftException>(Ok(()))
                    },
                    &shared,
                )
            }};
        }
        match prot {
            Prot::Binary => go!(binary::TAsyncBinaryProtocol::new(script)),
            Prot::BinaryLe => go!(binary_le::TAsyncBinaryProtocol::new(script)),
            Prot::Compact => go!(compact::TAsyncCompactProtocol::new(script)),
            Prot::Unsafe => unreachable!(),
        }
    });
    match res {
        Caught::Ok(Ok(Ok(x))) => x,
        Caught::Ok(Ok(Err(e))) => Err(("in-struct-err".into(), format!("{}:{}", err_class(&e), e.message()))),
        Caught::Ok(Err(x)) => Err(("in-struct-executor".into(), format!("{:?}", x))),
        Caught::Panic(loc, msg) => Err((format!("in-struct-{}", panic_sig(&loc, &msg)), msg)),
    }
}

fn readers(thorough: bool) -> Vec<Reader> {
    let mut v: Vec<Reader> = ALL_PROT.iter().map(|p| Reader::Sync(*p)).collect();
    for p in [Prot::Binary, Prot::BinaryLe, Prot::Compact] {
        v.push(Reader::Async(p, Mode::All));
        if thorough {
            v.push(Reader::Async(p, Mode::OneByte));
        }
    }
    v
}

fn check_value(col: &mut Collector, v: &Val, thorough: bool, trailers: &[u8]) {
    for r in readers(thorough) {
        let wire = r.prot().wire();
        let enc = rc::encode(wire, v);
        let fol = rc::encode(wire, &follower());
        for &tr in trailers {
            // 0: nothing follows, 1: one stray byte, 2: a complete second value
            let mut bytes = enc.clone();
            match tr {
                1 => bytes.push(0x7f),
                2 => bytes.extend_from_slice(&fol),
                _ => {}
            }
            col.evaluations += 1;
            let case = || json!({"kind": "top", "val": v, "reader": r.name(), "trailer": tr, "show": v.show(), "onebyte": matches!(r, Reader::Async(_, Mode::OneByte))});
            match run_top(r, v, &bytes, enc.len(), tr == 2) {
                Obs::Ok(n, consumed, f) => {
                    if let Some(n) = n {
                        if n != enc.len() {
                            col.outcome("wrong-count");
                            col.fail(format!("C07|{}|count:{}", r.name(), v.ty().short()), case(), format!("skip returned {} for a {}-byte value", n, enc.len()));
                            continue;
                        }
                    }
                    if consumed != enc.len() {
                        col.outcome("wrong-consumed");
                        col.fail(format!("C07|{}|consumed:{}", r.name(), v.ty().short()), case(), format!("consumed {} of a {}-byte value", consumed, enc.len()));
                    } else if let Err(e) = f {
                        col.outcome("follower");
                        col.fail(format!("C07|{}|follower:{}", r.name(), v.ty().short()), case(), e);
                    } else {
                        col.outcome("ok");
                    }
                }
                Obs::Err(_, e) => {
                    col.outcome("err");
                    let cls: String = e.split(':').take(2).collect::<Vec<_>>().join(":");
                    col.fail(format!("C07|{}|err:{}:{}", r.name(), v.ty().short(), cls), case(), e);
                }
                Obs::Panic(p) => {
                    col.outcome("panic");
                    col.fail(format!("C07|{}|{}", r.name(), p), case(), p.clone());
                }
                Obs::Exec(x) => {
                    col.outcome("exec");
                    col.fail(format!("C07|{}|executor:{}", r.name(), x), case(), x.clone());
                }
            }
        }
        if let Reader::Async(prot, mode) = r {
            col.evaluations += 1;
            match run_in_struct_async(prot, mode, v) {
                Ok(()) => col.outcome("ok-in-struct"),
                Err((sig, detail)) => {
                    col.outcome("in-struct-fail");
                    col.fail(
                        format!("C07|{}|{}:{}", r.name(), sig, v.ty().short()),
                        json!({"kind": "in-struct", "val": v, "reader": r.name(), "show": v.show()}),
                        detail,
                    );
                }
            }
        }
        if let Reader::Sync(prot) = r {
            col.evaluations += 1;
            match run_in_struct(prot, v) {
                Ok(()) => col.outcome("ok-in-struct"),
                Err((sig, detail)) => {
                    col.outcome("in-struct-fail");
                    col.fail(
                        format!("C07|{}|{}:{}", r.name(), sig, v.ty().short()),
                        json!({"kind": "in-struct", "val": v, "reader": r.name(), "show": v.show()}),
                        detail,
                    );
                }
            }
        }
    }
}

fn check_depth(col: &mut Collector, kind: &str, d: usize, thorough: bool) {
    let v = match kind {
        "struct" => val::nested_struct(d),
        "list" => val::nested_list(d),
        _ => val::nested_map(d),
    };
    for r in readers(thorough) {
        let enc = rc::encode(r.prot().wire(), &v);
        col.evaluations += 1;
        let case = || json!({"kind": "depth", "nest": kind, "d": d, "reader": r.name()});
        let iterative = r == Reader::Sync(Prot::Unsafe);
        match run_top(r, &v, &enc, enc.len(), false) {
            Obs::Ok(n, consumed, _) => {
                if d > 64 && !iterative {
                    col.outcome("deep-accepted");
                    col.fail(format!("C07|{}|depth>64-accepted:{}", r.name(), kind), case(), format!("depth {} skipped without DepthLimit", d));
                } else if consumed != enc.len() || n.map(|n| n != enc.len()).unwrap_or(false) {
                    col.outcome("depth-wrong-count");
                    col.fail(format!("C07|{}|depth-count:{}", r.name(), kind), case(), format!("{:?}/{} of {}", n, consumed, enc.len()));
                } else {
                    col.outcome(if d > 64 { "ok-deep-iterative" } else { "ok-depth" });
                }
            }
            Obs::Err(is_depth, e) => {
                if d > 64 && is_depth {
                    col.outcome("ok-depth-limit");
                } else if iterative && is_depth {
                    col.outcome("ok-depth-limit");
                } else {
                    col.outcome("depth-err");
                    col.fail(format!("C07|{}|depth<=64-rejected:{}", r.name(), kind), case(), format!("d={} {}", d, e));
                }
            }
            Obs::Panic(p) => col.fail(format!("C07|{}|depth-{}", r.name(), p), case(), p.clone()),
            Obs::Exec(x) => col.fail(format!("C07|{}|depth-executor", r.name()), case(), x),
        }
    }
}

pub fn run(a: &Args) {
    let mut col = Collector::new("C07", a);
    let cfg = SpaceCfg { thorough: a.thorough() };
    let th = cfg.thorough;
    // values: shapes (depth<=2, thorough 3) and scalar sweeps
    let mut f = |space: &str, v: &Val| {
        if !col.next_case(space) {
            return;
        }
        col.nontrivial += 1;
        if col.samples.len() < 3 || (col.samples.len() < 12 && col.cur_index() % 7919 == 0) {
            col.sample(json!(v.show()));
        }
        // trailing data: all three variants for small cases, the full-second-value variant always
        let small = v.node_count() <= 8;
        check_value(&mut col, v, th, if small || th { &[0, 1, 2] } else { &[2] });
    };
    spaces::space_shapes(&cfg, &mut f);
    spaces::space_scalars(&cfg, &mut f);
    spaces::space_large(&cfg, &mut f);
    // depth sweep
    let depths: Vec<usize> = if th { (1..=80).collect() } else { vec![1, 2, 3, 32, 63, 64, 65, 66, 80] };
    for kind in ["struct", "list", "map"] {
        for &d in &depths {
            if col.next_case("depth") {
                col.nontrivial += 1;
                check_depth(&mut col, kind, d, th);
            }
        }
    }
    col.finish(&a.out);
}

pub fn replay(case: &serde_json::Value) -> Vec<(String, String)> {
    let mut a = Args::parse();
    a.progress = None;
    let mut col = Collector::new("C07", &a);
    col.index = 1;
    match case["kind"].as_str().unwrap_or("") {
        "depth" => check_depth(&mut col, case["nest"].as_str().unwrap(), case["d"].as_u64().unwrap() as usize, true),
        _ => {
            let v: Val = serde_json::from_value(case["val"].clone()).unwrap();
            check_value(&mut col, &v, true, &[0, 1, 2]);
        }
    }
    col.failures.iter().map(|(s, g)| (s.clone(), g.detail.clone())).collect()
}

//! Generated-code level checks, part 2: C08 (tolerant readers), C13 (retention), C09/C19 (faults),
//! C11 (unchecked == checked), C12 (async schedules).

use super::ops::{Dec, DecRes, Entry, Req, Resp};
use super::schema::{canon, Doc, Gen, Ty, TypeDef};
use super::tchecks::{dec_sig, Ctx, SAFE};
use serde_json::{json, Value};
use vcore::explore::{self, Ctx as ECtx};
use vcore::refcodec::{self as rc, PosKind};
use vcore::report::Collector;
use vcore::val::{self, Val, T};
use vdrive::aio::Mode;
use vdrive::drive::{Prot, ALL_PROT};

// ------------------------------------------------------------------------------------------
// reference tolerant reader

#[derive(Debug, Clone, PartialEq)]
pub enum Tol {
    Ok(Val),
    /// a required field is missing / a union carries no known variant or more than one
    Reject(&'static str),
}

pub struct TolReader<'a> {
    pub doc: &'a Doc,
}

impl<'a> TolReader<'a> {
    pub fn def(&self, d: &TypeDef, w: &Val) -> Tol {
        match (d.kind.as_str(), w) {
            ("struct", Val::Struct(ws)) => {
                let mut out = Vec::new();
                for f in &d.fields {
                    let wt = self.doc.wire(&f.ty);
                    // the LAST matching occurrence wins (a writer never repeats an id; kept simple)
                    let hit = ws.iter().filter(|(id, x)| *id == f.id && x.ty() == wt).last();
                    match hit {
                        Some((_, x)) => match self.ty(&f.ty, x) {
                            Tol::Ok(v) => out.push((f.id, v)),
                            r => return r,
                        },
                        None => {
                            if let Some(dv) = &f.default {
                                out.push((f.id, dv.clone()));
                            } else if f.required() {
                                return Tol::Reject("required field missing");
                            }
                        }
                    }
                }
                Tol::Ok(Val::Struct(out))
            }
            ("union", Val::Struct(ws)) => {
                let known: Vec<(&super::schema::Field, &Val)> = ws
                    .iter()
                    .filter_map(|(id, x)| d.fields.iter().find(|f| f.id == *id && self.doc.wire(&f.ty) == x.ty()).map(|f| (f, x)))
                    .collect();
                match known.len() {
                    0 => {
                        if d.void_ok {
                            Tol::Ok(Val::Struct(vec![]))
                        } else {
                            Tol::Reject("union without known variant")
                        }
                    }
                    1 => match self.ty(&known[0].0.ty, known[0].1) {
                        Tol::Ok(v) => Tol::Ok(Val::Struct(vec![(known[0].0.id, v)])),
                        r => r,
                    },
                    _ => Tol::Reject("union with several variants"),
                }
            }
            ("typedef", x) => self.ty(d.ty.as_ref().unwrap(), x),
            (_, x) => Tol::Ok(x.clone()),
        }
    }
    pub fn ty(&self, ty: &Ty, w: &Val) -> Tol {
        match (ty.t.as_str(), w) {
            ("list", Val::List(t, e)) | ("set", Val::Set(t, e)) => {
                let mut o = Vec::new();
                for x in e {
                    match self.ty(ty.e.as_ref().unwrap(), x) {
                        Tol::Ok(v) => o.push(v),
                        r => return r,
                    }
                }
                Tol::Ok(if ty.t == "list" { Val::List(*t, o) } else { Val::Set(*t, o) })
            }
            ("map", Val::Map(kt, vt, e)) => {
                let mut o = Vec::new();
                for (a, b) in e {
                    let k = match self.ty(ty.k.as_ref().unwrap(), a) {
                        Tol::Ok(v) => v,
                        r => return r,
                    };
                    let v = match self.ty(ty.v.as_ref().unwrap(), b) {
                        Tol::Ok(v) => v,
                        r => return r,
                    };
                    o.push((k, v));
                }
                Tol::Ok(Val::Map(*kt, *vt, o))
            }
            ("ref", x) => self.def(&self.doc.types[ty.name.as_ref().unwrap()], x),
            (_, x) => Tol::Ok(x.clone()),
        }
    }
}

/// representative value of every wire type, used as "unknown" payloads
pub fn unknown_payloads() -> Vec<Val> {
    let mut v = val::leaves();
    v.push(Val::Bool(false));
    v.push(Val::Struct(vec![]));
    v.push(Val::Struct(vec![(1, Val::I32(1)), (2, Val::Struct(vec![(7, Val::Bin(b"in".to_vec()))]))]));
    v.push(Val::List(T::I32, vec![Val::I32(1), Val::I32(2)]));
    v.push(Val::List(T::Struct, vec![Val::Struct(vec![(1, Val::Bool(true))])]));
    v.push(Val::Set(T::Bin, vec![Val::Bin(b"s".to_vec())]));
    v.push(Val::Map(T::I32, T::Bin, vec![(Val::I32(1), Val::Bin(b"v".to_vec()))]));
    v.push(Val::Map(T::Bin, T::Struct, vec![]));
    v.push(Val::List(T::Double, vec![Val::Double(1.5f64.to_bits()), Val::Double(2.5f64.to_bits())]));
    v.push(Val::Map(T::I8, T::Double, vec![(Val::I8(1), Val::Double(1.0f64.to_bits()))]));
    v.push(Val::Struct(vec![(1, Val::Double(1.0f64.to_bits())), (2, Val::Uuid([7; 16]))]));
    v.push(Val::Bin(val::bin_of_len(300)));
    // emptiness and zero at every level: a skipper that special-cases "nothing to consume" must
    // still account for the header / length prefix it has read
    v.push(Val::Bin(vec![]));
    v.push(Val::List(T::Bin, vec![Val::Bin(vec![]), Val::Bin(b"x".to_vec()), Val::Bin(vec![])]));
    v.push(Val::Struct(vec![(1, Val::Bin(vec![])), (2, Val::I32(0)), (3, Val::Bool(false))]));
    v.push(Val::Map(T::Bin, T::Bin, vec![(Val::Bin(vec![]), Val::Bin(vec![]))]));
    v.push(Val::List(T::I32, vec![]));
    v.push(Val::Set(T::I64, vec![]));
    v.push(Val::List(T::List, vec![Val::List(T::Bin, vec![]), Val::List(T::Bin, vec![Val::Bin(vec![])])]));
    v.push(Val::Map(T::I32, T::Struct, vec![(Val::I32(0), Val::Struct(vec![]))]));
    v.push(Val::I8(0));
    v.push(Val::I16(0));
    v.push(Val::I32(0));
    v.push(Val::I64(0));
    v.push(Val::Double(0));
    v.push(Val::Uuid([0; 16]));
    // a map whose struct values contain a struct with a variable-size field (an iterative skipper
    // keeps key/value parity on its stack), one and two entries, and the same as list elements
    let inner = |s: &[u8]| Val::Struct(vec![(1, Val::I64(7)), (2, Val::Struct(vec![(1, Val::Bin(s.to_vec()))])), (3, Val::I16(-2))]);
    v.push(Val::Map(T::I32, T::Struct, vec![(Val::I32(1), inner(b"abc"))]));
    v.push(Val::Map(T::I32, T::Struct, vec![(Val::I32(1), inner(b"abc")), (Val::I32(2), inner(b""))]));
    v.push(Val::Map(T::Struct, T::Struct, vec![(inner(b"k"), inner(b"value"))]));
    v.push(Val::List(T::Struct, vec![inner(b"x"), inner(b"yz")]));
    v.push(Val::Map(T::Bin, T::Map, vec![(Val::Bin(b"m".to_vec()), Val::Map(T::I8, T::Struct, vec![(Val::I8(1), inner(b"deep"))]))]));
    v
}

/// unknown payloads whose element count crosses the 16-bit boundary (variable-size elements);
/// used in one position per type only (they are large)
pub fn large_unknown_payloads() -> Vec<Val> {
    vec![
        Val::List(T::Bin, (0..65537).map(|i| Val::Bin(vec![b'a' + (i % 26) as u8])).collect()),
        Val::Map(T::I32, T::Bin, (0..32769).map(|i| (Val::I32(i), Val::Bin(vec![b'v']))).collect()),
        Val::List(T::Struct, (0..65536).map(|_| Val::Struct(vec![])).collect()),
    ]
}

fn fresh_ids(d: &TypeDef) -> Vec<i16> {
    // an id below all, one in a gap (if any), one just above, one far above
    let used: Vec<i16> = d.fields.iter().map(|f| f.id).collect();
    let mut c: Vec<i16> = vec![-3, 0, 1, 2, 3, 20, 300, 30000, 32760, i16::MAX, i16::MIN];
    if let Some(m) = used.iter().max() {
        c.push(m.saturating_add(1));
        c.push(m.saturating_add(15));
    }
    c.retain(|x| !used.contains(x));
    c.sort();
    c.dedup();
    c
}

/// single edits of a writer-side struct value
pub fn edits(doc: &Doc, d: &TypeDef, v: &Val, thorough: bool) -> Vec<(String, Val)> {
    let fs = match v {
        Val::Struct(f) => f.clone(),
        _ => return vec![],
    };
    let mut out: Vec<(String, Val)> = Vec::new();
    let ids = fresh_ids(d);
    let payloads = unknown_payloads();
    // add an unknown field of every wire type at every position
    for (pi, p) in payloads.iter().enumerate() {
        for pos in 0..=fs.len() {
            // rotate through the fresh ids so that every id class meets every position
            let id = ids[(pi + pos) % ids.len()];
            if !thorough && fs.len() > 4 && pos != 0 && pos != fs.len() && pos != fs.len() / 2 {
                continue;
            }
            let mut n = fs.clone();
            n.insert(pos, (id, p.clone()));
            out.push((format!("add:{}", p.ty().short()), Val::Struct(n)));
        }
    }
    if d.kind == "struct" {
        // remove each field
        for i in 0..fs.len() {
            let mut n = fs.clone();
            n.remove(i);
            out.push(("remove".into(), Val::Struct(n)));
        }
        // retype each field to every other wire type
        for i in 0..fs.len() {
            for p in &payloads {
                if p.ty() == fs[i].1.ty() {
                    continue;
                }
                if !thorough && matches!(p, Val::Struct(x) if !x.is_empty()) {
                    continue;
                }
                let mut n = fs.clone();
                n[i].1 = p.clone();
                out.push((format!("retype:{}->{}", fs[i].1.ty().short(), p.ty().short()), Val::Struct(n)));
            }
        }
        // reorder: all permutations for <= 4 fields, reversal and rotation beyond
        if fs.len() >= 2 {
            if fs.len() <= 4 {
                let mut idx: Vec<usize> = (0..fs.len()).collect();
                permute(&mut idx, 0, &mut |p| {
                    if p.iter().enumerate().any(|(i, x)| i != *x) {
                        out.push(("reorder".into(), Val::Struct(p.iter().map(|i| fs[*i].clone()).collect())));
                    }
                });
            } else {
                let mut r = fs.clone();
                r.reverse();
                out.push(("reorder".into(), Val::Struct(r)));
                let mut r = fs.clone();
                r.rotate_left(1);
                out.push(("reorder".into(), Val::Struct(r)));
            }
        }
        // unknown field inside a nested known struct
        for i in 0..fs.len() {
            if let Val::Struct(inner) = &fs[i].1 {
                let mut n = fs.clone();
                let mut inn = inner.clone();
                inn.insert(0, (29000, Val::Bin(b"nested-unknown".to_vec())));
                inn.push((29001, Val::List(T::I64, vec![Val::I64(5)])));
                n[i].1 = Val::Struct(inn);
                out.push(("add-nested".into(), Val::Struct(n)));
            }
        }
    } else {
        // union: a second known variant, an unknown variant alone, nothing at all
        if let Some(other) = d.fields.iter().find(|f| fs.iter().all(|x| x.0 != f.id)) {
            let g = Gen { doc, thorough };
            let mut n = fs.clone();
            n.push((other.id, g.one(&other.ty, 1, false, 1)));
            out.push(("union-two-known".into(), Val::Struct(n)));
        }
        for p in payloads.iter().take(12) {
            out.push((format!("union-only-unknown:{}", p.ty().short()), Val::Struct(vec![(ids[ids.len() - 1], p.clone())])));
        }
        out.push(("union-empty".into(), Val::Struct(vec![])));
        // retype the variant
        if let Some((id, x)) = fs.first() {
            for p in &payloads {
                if p.ty() != x.ty() {
                    out.push((format!("union-retype:{}->{}", x.ty().short(), p.ty().short()), Val::Struct(vec![(*id, p.clone())])));
                }
            }
        }
    }
    out
}

fn permute(a: &mut Vec<usize>, k: usize, f: &mut dyn FnMut(&[usize])) {
    if k == a.len() {
        f(a);
        return;
    }
    for i in k..a.len() {
        a.swap(k, i);
        permute(a, k + 1, f);
        a.swap(k, i);
    }
}

/// base values a type is edited from: minimal, rich, and each field alone (one representative)
fn base_values(g: &Gen, d: &TypeDef) -> Vec<Val> {
    match d.kind.as_str() {
        "struct" => {
            let mut v = vec![g.one_def(d, 0, false, 0), g.one_def(d, 1, true, 0)];
            v.dedup();
            v
        }
        "union" => (0..d.fields.len().min(4)).map(|i| g.one_def(d, i, false, 1)).collect(),
        _ => vec![],
    }
}

pub fn c08(cx: &Ctx, col: &mut Collector) {
    super::tchecks::for_each_type_pub(cx, col, &["k0"], |col, e, doc, def| {
        if def.kind != "struct" && def.kind != "union" {
            return;
        }
        let g = Gen { doc, thorough: cx.thorough };
        let tol = TolReader { doc };
        for base in base_values(&g, def) {
            for (ename, w) in edits(doc, def, &base, cx.thorough) {
                if !col.next_case(&format!("edit:{}", ename.split(':').next().unwrap())) {
                    continue;
                }
                col.nontrivial += 1;
                if col.samples.len() < 10 && col.cur_index() % 997 == 0 {
                    col.sample(json!({"reader": format!("{}::{}", e.doc, e.ty), "edit": ename, "writer_value": w.show()}));
                }
                c08_one(col, cx, e, doc, def, &tol, &ename, &w);
            }
        }
    });
}

pub fn c08_one(col: &mut Collector, cx: &Ctx, e: &Entry, doc: &Doc, def: &TypeDef, tol: &TolReader, ename: &str, w: &Val) {
    let want = tol.def(def, w);
    // generated union decoders select the variant by field id alone: a variant sent with another
    // wire type is decoded as the declared type. Tagged so that the recorded finding masks nothing else.
    let tag = if ename.starts_with("union-retype") { "[union-variant-type]" } else { "" };
    if !tag.is_empty() {
        col.tag_case(2);
    }
    for inp in ALL_PROT {
        let bytes = rc::encode(inp.wire(), w);
        for is_async in [false, true] {
            if is_async && inp == Prot::Unsafe {
                continue;
            }
            col.evaluations += 1;
            let dec = if is_async { Dec::Async(inp, Mode::All, std::ptr::null_mut()) } else { Dec::Sync(inp) };
            let guard = if inp == Prot::Unsafe { Some(&cx.arena) } else { None };
            let r: Resp = (e.ops.transcode)(&Req { bytes: &bytes, dec, enc: &[Prot::Binary], guard });
            let how = format!("{}{}", if is_async { "async-" } else { "" }, inp.name());
            let case = || json!({"doc": e.doc, "cfg": e.cfg, "ty": e.ty, "edit": ename, "writer": w, "show": w.show(), "in": how});
            match (&want, &r.dec) {
                (_, DecRes::Panic(p)) => {
                    col.outcome("panic");
                    col.fail(format!("C08{}|{}|{}|{}", tag, how, ename, p), case(), format!("{} on {}", p, w.show()));
                }
                (_, DecRes::Exec(x)) => col.fail(format!("C08{}|{}|{}|executor", tag, how, ename), case(), x.clone()),
                (Tol::Reject(why), DecRes::Ok) => {
                    col.outcome("accepted-should-reject");
                    col.fail(format!("C08{}|{}|{}|accepted:{}", tag, how, ename, why), case(), format!("decoder accepted {} ({})", w.show(), why));
                }
                (Tol::Reject(_), DecRes::Err(..)) => col.outcome("rejected-ok"),
                (Tol::Ok(v), DecRes::Err(c, m)) => {
                    col.outcome("rejected-should-accept");
                    col.fail(
                        format!("C08{}|{}|{}|rejected:{}", tag, how, ename, super::tchecks::mask(&format!("{}:{}", c, m))),
                        case(),
                        format!("well-formed input {} rejected ({}); tolerant reader expects {}", w.show(), m, v.show()),
                    );
                }
                (Tol::Ok(v), DecRes::Ok) => {
                    if r.consumed != bytes.len() {
                        col.outcome("consumed");
                        col.fail(format!("C08{}|{}|{}|consumed", tag, how, ename), case(), format!("{} of {}", r.consumed, bytes.len()));
                        continue;
                    }
                    match r.enc.first().map(|x| &x.out) {
                        Some(Ok((out, _, _))) => match rc::decode(rc::Proto::Binary, T::Struct, out) {
                            Ok((got, _)) => {
                                let (a, b) = (canon(v), canon(&got));
                                if let Some(d) = a.first_diff(&b) {
                                    col.outcome("wrong-value");
                                    col.fail(
                                        format!("C08{}|{}|{}|wrong-value:{}", tag, how, ename, d.rsplit('/').next().unwrap_or("")),
                                        case(),
                                        format!("writer sent {}; expected {} got {}", w.show(), a.show(), b.show()),
                                    );
                                } else {
                                    col.outcome("ok");
                                }
                            }
                            Err(x) => col.fail(format!("C08{}|{}|{}|reencode-invalid", tag, how, ename), case(), format!("{:?}", x)),
                        },
                        other => col.fail(format!("C08{}|{}|{}|reencode-failed", tag, how, ename), case(), format!("{:?}", other.map(|x| x.as_ref().err()))),
                    }
                }
            }
        }
    }
    let _ = doc;
}

// ------------------------------------------------------------------------------------------
// C13 retention

/// writer-side values: base value + 1 or 2 extra fields (every wire type, every position),
/// extras inside nested structs / list elements / map values
fn with_extras(doc: &Doc, d: &TypeDef, v: &Val, thorough: bool) -> Vec<(String, Val)> {
    let fs = match v {
        Val::Struct(f) => f.clone(),
        _ => return vec![],
    };
    let ids = fresh_ids(d);
    let payloads = unknown_payloads();
    let mut out = Vec::new();
    for (pi, p) in payloads.iter().enumerate() {
        for pos in 0..=fs.len() {
            if !thorough && fs.len() > 3 && pos != 0 && pos != fs.len() && pos != 1 {
                continue;
            }
            let mut n = fs.clone();
            n.insert(pos, (ids[(pi + pos) % ids.len()], p.clone()));
            out.push((format!("one:{}", p.ty().short()), Val::Struct(n)));
        }
    }
    // two extras: adjacent at the front, split front/back, adjacent at the end
    for (pi, p) in payloads.iter().enumerate() {
        let q = &payloads[(pi + 5) % payloads.len()];
        let (i1, i2) = (ids[0], ids[ids.len() - 1]);
        let mut n = fs.clone();
        n.insert(0, (i1, p.clone()));
        n.insert(1, (i2, q.clone()));
        out.push(("two-front".into(), Val::Struct(n)));
        let mut n = fs.clone();
        n.insert(0, (i1, p.clone()));
        n.push((i2, q.clone()));
        out.push(("two-split".into(), Val::Struct(n)));
        if thorough {
            let mut n = fs.clone();
            n.push((i2, q.clone()));
            n.push((i1, p.clone()));
            out.push(("two-back".into(), Val::Struct(n)));
        }
    }
    // extras inside nested values (only where the declared type is a STRUCT: a union can hold one
    // thing only, so an unknown field next to a known variant is a different situation)
    let struct_payload = |ty: &Ty| -> bool {
        fn inner<'x>(doc: &'x Doc, ty: &'x Ty) -> &'x Ty {
            match ty.t.as_str() {
                "list" | "set" => inner(doc, ty.e.as_ref().unwrap()),
                "map" => inner(doc, ty.v.as_ref().unwrap()),
                "ref" => {
                    let d = &doc.types[ty.name.as_ref().unwrap()];
                    if d.kind == "typedef" {
                        inner(doc, d.ty.as_ref().unwrap())
                    } else {
                        ty
                    }
                }
                _ => ty,
            }
        }
        let t = inner(doc, ty);
        t.t == "ref" && doc.types[t.name.as_ref().unwrap()].kind == "struct"
    };
    for i in 0..fs.len() {
        match d.fields.iter().find(|f| f.id == fs[i].0) {
            Some(f) if struct_payload(&f.ty) => {}
            _ => continue,
        }
        let add = |s: &Vec<(i16, Val)>| {
            let mut inn = s.clone();
            inn.insert(0, (28000, Val::I64(99)));
            inn.push((28001, Val::Bin(b"tail".to_vec())));
            Val::Struct(inn)
        };
        let nested = match &fs[i].1 {
            Val::Struct(s) => Some(add(s)),
            Val::List(T::Struct, e) if !e.is_empty() => Some(Val::List(
                T::Struct,
                e.iter().map(|x| if let Val::Struct(s) = x { add(s) } else { x.clone() }).collect(),
            )),
            Val::Map(k, T::Struct, e) if !e.is_empty() => Some(Val::Map(
                *k,
                T::Struct,
                e.iter().map(|(a, b)| (a.clone(), if let Val::Struct(s) = b { add(s) } else { b.clone() })).collect(),
            )),
            _ => None,
        };
        if let Some(nv) = nested {
            let mut n = fs.clone();
            n[i].1 = nv;
            out.push(("nested".into(), Val::Struct(n)));
        }
    }
    out
}

pub fn c13(cx: &Ctx, col: &mut Collector) {
    super::tchecks::for_each_type_pub(cx, col, &["k1"], |col, e, doc, def| {
        // synthesised argument/result types are not items of the file: they carry no
        // _unknown_fields member and the property does not speak about them
        if def.kind != "struct" || def.synth {
            return;
        }
        let g = Gen { doc, thorough: cx.thorough };
        let k0 = cx.h.entries.iter().find(|x| x.doc == e.doc && x.ty == e.ty && x.cfg == "k0");
        for base in base_values(&g, def) {
            for (ename, w) in with_extras(doc, def, &base, cx.thorough) {
                if !col.next_case(&format!("extra:{}", ename.split(':').next().unwrap())) {
                    continue;
                }
                col.nontrivial += 1;
                if col.samples.len() < 10 && col.cur_index() % 997 == 0 {
                    col.sample(json!({"reader": format!("{}::{}", e.doc, e.ty), "extra": ename, "writer_value": w.show()}));
                }
                c13_one(col, cx, e, k0, doc, def, &ename, &w);
            }
        }
        // one unknown field holding a very large container, behind the known fields of the
        // first base value
        if let Some(Val::Struct(fs)) = base_values(&g, def).first() {
            let id = fresh_ids(def).into_iter().filter(|i| *i > 0).max().unwrap_or(30000);
            for (pi, p) in large_unknown_payloads().into_iter().enumerate() {
                if !col.next_case("extra:large") {
                    continue;
                }
                col.nontrivial += 1;
                let mut w = fs.clone();
                w.push((id, p));
                c13_one(col, cx, e, k0, doc, def, &format!("one:large{}", pi), &Val::Struct(w));
            }
        }
    });
}

/// is `x` a struct the reader would see as one of its own (known) struct-typed fields that is
/// itself compiled with retention? (everything in a k1 document is)
pub fn c13_one(col: &mut Collector, cx: &Ctx, e: &Entry, k0: Option<&Entry>, doc: &Doc, def: &TypeDef, ename: &str, w: &Val) {
    let tag = if def.arg_ref { "[arg-type+retention]" } else { "" };
    if !tag.is_empty() {
        col.tag_case(1);
    }
    let tol = TolReader { doc };
    for inp in [Prot::Binary, Prot::Unsafe] {
        col.evaluations += 1;
        let bytes = rc::encode(rc::Proto::Binary, w);
        let guard = if inp == Prot::Unsafe { Some(&cx.arena) } else { None };
        let r = (e.ops.transcode)(&Req { bytes: &bytes, dec: Dec::Sync(inp), enc: &[Prot::Binary, Prot::Unsafe], guard });
        let case = || json!({"doc": e.doc, "cfg": e.cfg, "ty": e.ty, "extra": ename, "writer": w, "show": w.show(), "in": inp.name()});
        let head = format!("C13{}|{}|{}", tag, inp.name(), ename.split(':').next().unwrap());
        if r.dec != DecRes::Ok {
            // a missing required field in the base value cannot happen (bases are complete)
            col.outcome("decode-fail");
            col.fail(format!("{}|decode:{}", head, dec_sig(&r.dec)), case(), format!("{:?} on {}", r.dec, w.show()));
            continue;
        }
        if r.consumed != bytes.len() {
            col.outcome("consumed");
            col.fail(format!("{}|consumed", head), case(), format!("{} of {}", r.consumed, bytes.len()));
            continue;
        }
        for er in &r.enc {
            match &er.out {
                Err(x) => col.fail(format!("{}|encode-{}:{}", head, er.prot.name(), x), case(), x.clone()),
                Ok((out, size, sentinel)) => {
                    if *size != out.len() || !sentinel {
                        col.outcome("size");
                        col.fail(format!("{}|size-{}", head, er.prot.name()), case(), format!("size() {} written {}", size, out.len()));
                        continue;
                    }
                    match rc::decode(rc::Proto::Binary, T::Struct, out) {
                        Ok((got, used)) if used == out.len() => {
                            // a full-schema reader must recover the writer's value: known fields
                            // (with defaults filled) plus every unknown field, byte for byte
                            let want = expected_with_unknowns(&tol, def, w);
                            let (a, b) = (canon(&want), canon(&got));
                            if let Some(d) = a.first_diff(&b) {
                                col.outcome("lost-or-changed");
                                col.fail(
                                    format!("{}|reencode-{}:{}", head, er.prot.name(), d.rsplit('/').next().unwrap_or("")),
                                    case(),
                                    format!("writer sent {}; after decode+encode a full reader sees {}", a.show(), b.show()),
                                );
                            } else {
                                col.outcome("ok");
                            }
                        }
                        other => {
                            col.outcome("invalid");
                            col.fail(format!("{}|reencode-{}-invalid", head, er.prot.name()), case(), format!("{:?}", other.map(|x| x.1)));
                        }
                    }
                }
            }
        }
        // retention never changes how known fields decode: compare with the k0 build
        if let Some(k0) = k0 {
            col.evaluations += 1;
            let r0 = (k0.ops.transcode)(&Req { bytes: &bytes, dec: Dec::Sync(inp), enc: &[Prot::Binary], guard });
            let known = |r: &Resp| -> Option<Val> {
                match r.enc.first().map(|x| &x.out) {
                    Some(Ok((out, _, _))) => rc::decode(rc::Proto::Binary, T::Struct, out).ok().map(|x| strip_unknown(&tol, def, &x.0)),
                    _ => None,
                }
            };
            let (a, b) = (known(&r0), known(&r));
            if r0.dec == DecRes::Ok && a.as_ref().map(canon) != b.as_ref().map(canon) {
                col.outcome("known-fields-differ");
                col.fail(format!("{}|known-fields-differ-from-no-retention", head), case(), format!("without retention {:?} with {:?}", a.map(|x| x.show()), b.map(|x| x.show())));
            }
        }
    }
}

/// what a reader with the writer's full schema must see after reader-decode + re-encode
fn expected_with_unknowns(tol: &TolReader, d: &TypeDef, w: &Val) -> Val {
    // known part as the tolerant reader sees it (defaults filled), nested structs recursively keep
    // their own unknown fields (every struct of a k1 document retains)
    fn rec_def(tol: &TolReader, d: &TypeDef, w: &Val) -> Val {
        match (d.kind.as_str(), w) {
            ("struct", Val::Struct(ws)) => {
                let mut out = Vec::new();
                for f in &d.fields {
                    let wt = tol.doc.wire(&f.ty);
                    match ws.iter().filter(|(id, x)| *id == f.id && x.ty() == wt).last() {
                        Some((_, x)) => out.push((f.id, rec_ty(tol, &f.ty, x))),
                        None => {
                            if let Some(dv) = &f.default {
                                out.push((f.id, dv.clone()));
                            }
                        }
                    }
                }
                for (id, x) in ws {
                    let known = d.fields.iter().any(|f| f.id == *id && tol.doc.wire(&f.ty) == x.ty());
                    if !known {
                        out.push((*id, x.clone()));
                    }
                }
                Val::Struct(out)
            }
            ("typedef", x) => rec_ty(tol, d.ty.as_ref().unwrap(), x),
            (_, x) => x.clone(),
        }
    }
    fn rec_ty(tol: &TolReader, ty: &Ty, w: &Val) -> Val {
        match (ty.t.as_str(), w) {
            ("list", Val::List(t, e)) => Val::List(*t, e.iter().map(|x| rec_ty(tol, ty.e.as_ref().unwrap(), x)).collect()),
            ("set", Val::Set(t, e)) => Val::Set(*t, e.iter().map(|x| rec_ty(tol, ty.e.as_ref().unwrap(), x)).collect()),
            ("map", Val::Map(k, v, e)) => Val::Map(
                *k,
                *v,
                e.iter().map(|(a, b)| (rec_ty(tol, ty.k.as_ref().unwrap(), a), rec_ty(tol, ty.v.as_ref().unwrap(), b))).collect(),
            ),
            ("ref", x) => rec_def(tol, &tol.doc.types[ty.name.as_ref().unwrap()], x),
            (_, x) => x.clone(),
        }
    }
    rec_def(tol, d, w)
}

/// drop everything the reader schema does not know (top level and nested)
fn strip_unknown(tol: &TolReader, d: &TypeDef, v: &Val) -> Val {
    match tol.def(d, v) {
        Tol::Ok(x) => x,
        Tol::Reject(_) => v.clone(),
    }
}

// ------------------------------------------------------------------------------------------
// C09 / C19: faults over generated decoders

fn fault_budget(len: usize, smax: usize) -> usize {
    (64 << 10) + 4 * smax.max(64) * len + 1024 * len
}

pub struct GFault {
    pub kind: String,
    pub bytes: Vec<u8>,
    pub strict_prefix: bool,
}

fn faults_of(enc: &[u8], ann: &[rc::Ann], wire: rc::Proto, flips: bool) -> Vec<GFault> {
    let mut out = Vec::new();
    // long encodings (stretched payloads): every truncation inside the first and last 256 bytes and
    // around every annotated position (headers, lengths, counts), every (len/512)th in between -
    // the fault list is materialised, and all positions x all lengths would not fit in memory
    let long = enc.len() > 1500;
    let mut cuts: Vec<usize> = if long {
        let mut c: Vec<usize> = (0..256).chain(enc.len() - 256..enc.len()).collect();
        for a in ann {
            c.extend([a.off.saturating_sub(1), a.off, a.off + 1, a.off + a.len, a.off + a.len + 1]);
        }
        c.extend((0..enc.len()).step_by(enc.len() / 512 + 1));
        c
    } else {
        (0..enc.len()).collect()
    };
    cuts.retain(|n| *n < enc.len());
    cuts.sort();
    cuts.dedup();
    for n in cuts {
        out.push(GFault { kind: "trunc".into(), bytes: enc[..n].to_vec(), strict_prefix: true });
    }
    for a in ann {
        for rep in rc::fault_replacements(wire, a, enc.len()) {
            let mut b = enc[..a.off].to_vec();
            b.extend_from_slice(&rep);
            b.extend_from_slice(&enc[a.off + a.len..]);
            let kind = match a.kind {
                PosKind::BinLen => "overwrite:binlen",
                PosKind::Count => "overwrite:count",
                PosKind::FieldId => "overwrite:fieldid",
                PosKind::FieldType => "overwrite:fieldtype",
                PosKind::ElemType => "overwrite:elemtype",
            };
            out.push(GFault { kind: kind.into(), bytes: b, strict_prefix: false });
        }
    }
    if flips {
        let positions: Vec<usize> = if long {
            let mut c: Vec<usize> = (0..128).chain(enc.len() - 128..enc.len()).collect();
            for a in ann {
                c.extend(a.off.saturating_sub(1)..(a.off + a.len + 1).min(enc.len()));
            }
            c.sort();
            c.dedup();
            c
        } else {
            (0..enc.len()).collect()
        };
        for i in positions {
            for bit in 0..8 {
                let mut b = enc.to_vec();
                b[i] ^= 1 << bit;
                out.push(GFault { kind: "flip".into(), bytes: b, strict_prefix: false });
            }
        }
    }
    out
}

/// every non-empty string/binary leaf repeated up to at least `n` bytes (distinct leaves stay distinct)
fn stretch(v: &Val, n: usize) -> Val {
    match v {
        Val::Bin(b) if !b.is_empty() && b.len() < n => {
            let mut o = Vec::with_capacity(n + b.len());
            while o.len() < n {
                o.extend_from_slice(b);
            }
            Val::Bin(o)
        }
        Val::Struct(f) => Val::Struct(f.iter().map(|(i, x)| (*i, stretch(x, n))).collect()),
        Val::List(t, e) => Val::List(*t, e.iter().map(|x| stretch(x, n)).collect()),
        Val::Set(t, e) => Val::Set(*t, e.iter().map(|x| stretch(x, n)).collect()),
        Val::Map(k, t, e) => Val::Map(*k, *t, e.iter().map(|(a, b)| (stretch(a, n), stretch(b, n))).collect()),
        o => o.clone(),
    }
}

fn seed_values(g: &Gen, d: &TypeDef) -> Vec<Val> {
    match d.kind.as_str() {
        "struct" => {
            let mut v = vec![g.one_def(d, 1, true, 0)];
            let m = g.one_def(d, 0, false, 0);
            if m != v[0] {
                v.push(m);
            }
            // payloads longer than any small-buffer threshold (the representative strings are short)
            for n in if g.thorough { vec![40, 300, 5000] } else { vec![40] } {
                let s = stretch(&v[0], n);
                if s != v[0] {
                    v.push(s);
                }
            }
            v
        }
        "union" => (0..d.fields.len().min(3)).map(|i| g.one_def(d, i, true, 1)).collect(),
        _ => vec![g.one_def(d, 0, true, 0)],
    }
}

pub fn c09(cx: &Ctx, col: &mut Collector, leak_only: bool) {
    let prop = if leak_only { "C19" } else { "C09" };
    let smax = cx.h.entries.iter().map(|e| e.ops.size_of).max().unwrap_or(64);
    col.count("S_max", 0);
    col.counters.insert("S_max".into(), smax as u64);
    super::tchecks::for_each_type_pub(cx, col, &["k0", "k1"], |col, e, doc, def| {
        let g = Gen { doc, thorough: cx.thorough };
        let top = doc.wire_def(def);
        let tag = if e.cfg.ends_with('1') && def.arg_ref { "[arg-type+retention]" } else { "" };
        let has_list = contains_list(doc, def, &mut Vec::new());
        for (si, v) in seed_values(&g, def).into_iter().enumerate() {
            for prot in SAFE {
                let (enc, ann) = rc::encode_ann(prot.wire(), &v);
                let flips = cx.thorough || (enc.len() <= 24 && si == 0);
                for f in faults_of(&enc, &ann, prot.wire(), flips && !leak_only) {
                    // the leak check uses truncations in the quick tier and adds overwrites in the
                    // thorough tier
                    if leak_only && !cx.thorough && f.kind != "trunc" {
                        continue;
                    }
                    if !col.next_case(&f.kind) {
                        continue;
                    }
                    if !tag.is_empty() {
                        col.tag_case(1);
                    }
                    col.nontrivial += 1;
                    if col.samples.len() < 8 && col.cur_index() % 4999 == 0 {
                        col.sample(json!({"type": format!("{}::{}", e.doc, e.ty), "prot": prot.name(), "fault": f.kind, "bytes": f.bytes}));
                    }
                    fault_one(col, cx, e, prot, top, &f, prop, tag, smax, leak_only, has_list);
                }
            }
        }
    });
    if !leak_only {
        // recursion depth: recursive corpus types nested 1..N deep
        c09_depth(cx, col);
    }
}

pub fn fault_one(col: &mut Collector, _cx: &Ctx, e: &Entry, prot: Prot, _top: T, f: &GFault, prop: &str, tag: &str, smax: usize, leak_only: bool, has_list: bool) {
    for is_async in [false, true] {
        // (recorded finding: async decoders preallocate from wire counts, seconds per case; the
        // leak check does not need those cases three times over)
        if leak_only && is_async && (f.kind == "overwrite:count" || f.kind == "overwrite:elemtype") {
            continue;
        }
        let how = format!("{}{}", if is_async { "async-" } else { "" }, prot.name());
        // a construct that is slow every time (recorded: async container preallocation) is given
        // up per (reader, fault kind) after 8 slow executions; everything else goes on
        let slow_key = format!("{}|{}", how, f.kind);
        if col.skip_kind(&slow_key) {
            col.outcome("skipped-after-8-slow-of-its-kind");
            continue;
        }
        col.evaluations += 1;
        let dec = if is_async { Dec::Async(prot, Mode::All, std::ptr::null_mut()) } else { Dec::Sync(prot) };
        let case = || json!({"doc": e.doc, "cfg": e.cfg, "ty": e.ty, "prot": prot.name(), "async": is_async, "kind": f.kind, "bytes": f.bytes, "strict_prefix": f.strict_prefix});
        // leak measurement: warm-up run, then two measured runs (a real leak repeats)
        if leak_only {
            let run = || {
                let before = vcore::alloc::live();
                let r = (e.ops.transcode)(&Req { bytes: &f.bytes, dec, enc: &[], guard: None });
                let failed = matches!(r.dec, DecRes::Err(..));
                drop(r);
                (failed, vcore::alloc::live() as isize - before as isize)
            };
            let (failed, _) = run();
            if !failed {
                col.outcome("not-an-error-case");
                continue;
            }
            let (_, d1) = run();
            let (_, d2) = run();
            if d1 > 0 && d2 > 0 {
                col.outcome("leak");
                col.fail(
                    format!("{}{}|{}|{}|leak:{}", prop, tag, e.cfg, how, if has_list { "type-with-list" } else { "type-without-list" }),
                    case(),
                    format!("{} and {} bytes stay allocated after a failed decode ({} bytes input, fault {})", d1, d2, f.bytes.len(), f.kind),
                );
            } else {
                col.outcome("released");
            }
            continue;
        }
        let t0 = std::time::Instant::now();
        let r = (e.ops.transcode)(&Req { bytes: &f.bytes, dec, enc: &[], guard: None });
        let ms = t0.elapsed().as_millis();
        let head = format!("{}{}|{}|{}", prop, tag, e.cfg, how);
        match &r.dec {
            DecRes::Ok => {
                if f.strict_prefix {
                    col.outcome("prefix-accepted");
                    col.fail(format!("{}|strict-prefix-accepted", head), case(), "a strict prefix of a valid encoding was accepted".into());
                } else {
                    col.outcome("ok");
                }
            }
            DecRes::Err(..) => col.outcome("err"),
            DecRes::Panic(p) => {
                col.outcome("panic");
                col.fail(format!("{}|{}", head, p), case(), p.clone());
            }
            DecRes::Exec(x) => col.fail(format!("{}|executor:{}", head, x), case(), x.clone()),
        }
        if r.alloc_total > fault_budget(f.bytes.len(), smax) {
            col.outcome("over-budget");
            col.fail(
                format!("{}|alloc-out-of-proportion", head),
                case(),
                format!("{} bytes requested (largest {}) for {} input bytes; budget {}", r.alloc_total, r.alloc_max, f.bytes.len(), fault_budget(f.bytes.len(), smax)),
            );
        }
        if ms > 2000 {
            col.slow_kind(&slow_key);
            col.fail(format!("{}|slow", head), case(), format!("{} ms", ms));
        }
    }
}

/// does the type (transitively) contain a list? (the recorded leak is in the generated sync
/// list decode; a leak in a type without any list would be a different defect)
fn contains_list(doc: &Doc, d: &TypeDef, seen: &mut Vec<String>) -> bool {
    if seen.contains(&d.name) {
        return false;
    }
    seen.push(d.name.clone());
    fn ty_has(doc: &Doc, ty: &Ty, seen: &mut Vec<String>) -> bool {
        match ty.t.as_str() {
            "list" => true,
            "set" => ty_has(doc, ty.e.as_ref().unwrap(), seen),
            "map" => ty_has(doc, ty.k.as_ref().unwrap(), seen) || ty_has(doc, ty.v.as_ref().unwrap(), seen),
            "ref" => contains_list(doc, &doc.types[ty.name.as_ref().unwrap()], seen),
            _ => false,
        }
    }
    d.fields.iter().any(|f| ty_has(doc, &f.ty, seen)) || d.ty.as_ref().map(|t| ty_has(doc, t, seen)).unwrap_or(false)
}

fn c09_depth(cx: &Ctx, col: &mut Collector) {
    // Node{1: next Node, 2: v} nested d deep; Tree{1: list<Tree>}; MapRec
    let depths: Vec<usize> = if cx.thorough { vec![1, 10, 100, 500, 1000, 2000, 5000, 20000, 100000] } else { vec![1, 100, 1000, 5000, 50000] };
    for e in cx.h.entries.iter().filter(|e| e.doc == "recursive" && e.cfg == "k0") {
        for &d in &depths {
            if !matches!(e.ty, "Node" | "Tree") {
                continue;
            }
            for prot in [Prot::Binary, Prot::Compact] {
                if !col.next_case("depth") {
                    continue;
                }
                // generated decoders recurse once per nesting level without a depth budget: deep
                // inputs overflow the stack (recorded finding); tagged so the death is attributed
                col.tag_case(3);
                col.nontrivial += 1;
                // the reference encoder is recursive too: build the bytes iteratively
                let bytes = deep_bytes(e.ty, d, prot);
                for is_async in [false, true] {
                    col.evaluations += 1;
                    let dec = if is_async { Dec::Async(prot, Mode::All, std::ptr::null_mut()) } else { Dec::Sync(prot) };
                    let r = (e.ops.transcode)(&Req { bytes: &bytes, dec, enc: &[], guard: None });
                    match r.dec {
                        DecRes::Ok | DecRes::Err(..) => col.outcome("depth-ok"),
                        DecRes::Panic(p) => col.fail(format!("C09[recursion-depth]|{}|{}", prot.name(), p), json!({"ty": e.ty, "depth": d}), p.clone()),
                        DecRes::Exec(x) => col.fail(format!("C09[recursion-depth]|{}|executor", prot.name()), json!({"ty": e.ty, "depth": d}), x),
                    }
                }
            }
        }
    }
}

fn deep_bytes(ty: &str, d: usize, prot: Prot) -> Vec<u8> {
    let mut b = Vec::new();
    match (ty, prot) {
        ("Node", Prot::Compact) => {
            for _ in 1..d {
                b.push(0x1c); // field 1 struct (delta 1)
            }
            b.extend_from_slice(&[0x25, 0x02, 0x00]); // innermost: field 2 i32 = 1, stop
            for _ in 1..d {
                b.extend_from_slice(&[0x15, 0x02, 0x00]);
            }
        }
        ("Node", _) => {
            for _ in 1..d {
                b.extend_from_slice(&[12, 0, 1]);
            }
            b.extend_from_slice(&[8, 0, 2, 0, 0, 0, 1, 0]);
            for _ in 1..d {
                b.extend_from_slice(&[8, 0, 2, 0, 0, 0, 1, 0]);
            }
        }
        ("Tree", Prot::Compact) => {
            for _ in 1..d {
                b.extend_from_slice(&[0x19, 0x1c]); // field 1 list, 1 element of struct
            }
            b.extend_from_slice(&[0x21, 0x00]); // field 2 bool true, stop
            for _ in 1..d {
                b.push(0x00);
            }
        }
        _ => {
            for _ in 1..d {
                b.extend_from_slice(&[15, 0, 1, 12, 0, 0, 0, 1]);
            }
            b.extend_from_slice(&[2, 0, 2, 1, 0]);
            for _ in 1..d {
                b.push(0);
            }
        }
    }
    b
}

// ------------------------------------------------------------------------------------------
// C11 generated half

pub fn c11(cx: &Ctx, col: &mut Collector) {
    super::tchecks::for_each_type_pub(cx, col, &["k0", "k1"], |col, e, doc, def| {
        let g = Gen { doc, thorough: cx.thorough };
        let tag = if e.cfg.ends_with('1') && def.arg_ref { "[arg-type+retention]" } else { "" };
        let mut inputs: Vec<(String, Val)> = g.values(def).into_iter().map(|v| ("value".to_string(), v)).collect();
        if def.kind == "struct" {
            // reader schemas that skip (k0) or retain (k1) unknown fields of every wire type
            for base in base_values(&g, def) {
                for (n, w) in with_extras(doc, def, &base, false) {
                    inputs.push((format!("unknown-{}", n.split(':').next().unwrap()), w));
                }
            }
        }
        for (kind, w) in inputs {
            if !col.next_case(&kind) {
                continue;
            }
            if !tag.is_empty() {
                col.tag_case(1);
            }
            col.nontrivial += 1;
            col.evaluations += 2;
            let bytes = rc::encode(rc::Proto::Binary, &w);
            let rc_ = (e.ops.transcode)(&Req { bytes: &bytes, dec: Dec::Sync(Prot::Binary), enc: &[Prot::Binary, Prot::Unsafe], guard: None });
            let ru = (e.ops.transcode)(&Req { bytes: &bytes, dec: Dec::Sync(Prot::Unsafe), enc: &[Prot::Binary, Prot::Unsafe], guard: Some(&cx.arena) });
            let case = || json!({"doc": e.doc, "cfg": e.cfg, "ty": e.ty, "kind": kind, "writer": w, "show": w.show()});
            let head = format!("C11{}|{}|{}", tag, e.cfg, kind);
            if col.samples.len() < 8 && col.cur_index() % 1999 == 0 {
                col.sample(json!({"type": format!("{}::{}", e.doc, e.ty), "cfg": e.cfg, "kind": kind, "input": w.show()}));
            }
            if rc_.dec != DecRes::Ok {
                // outside the contract (e.g. a required field missing): both must refuse
                if ru.dec == DecRes::Ok {
                    col.fail(format!("{}|unchecked-accepts-what-checked-rejects", head), case(), format!("checked: {:?}", rc_.dec));
                } else if matches!(ru.dec, DecRes::Panic(_)) {
                    col.fail(format!("{}|unchecked-{}", head, dec_sig(&ru.dec)), case(), format!("{:?}", ru.dec));
                } else {
                    col.outcome("both-reject");
                }
                continue;
            }
            if ru.dec != DecRes::Ok {
                col.outcome("unchecked-fails");
                col.fail(format!("{}|unchecked-decode:{}", head, dec_sig(&ru.dec)), case(), format!("{:?} on {}", ru.dec, w.show()));
                continue;
            }
            if ru.consumed != rc_.consumed {
                col.outcome("consumed");
                col.fail(format!("{}|consumed-differs", head), case(), format!("unchecked {} checked {}", ru.consumed, rc_.consumed));
                continue;
            }
            // four re-encodings: {checked,unchecked} decoder x {checked,unchecked} encoder: compare as
            // values (hash containers iterate in arbitrary order)
            let dec = |r: &Resp, i: usize| -> Result<Val, String> {
                match &r.enc[i].out {
                    Ok((out, size, sentinel)) => {
                        if *size != out.len() {
                            return Err(format!("size {} != written {}", size, out.len()));
                        }
                        if !sentinel {
                            return Err("wrote outside the window".into());
                        }
                        rc::decode(rc::Proto::Binary, doc.wire_def(def), out).map(|x| canon(&x.0)).map_err(|e| format!("invalid: {:?}", e))
                    }
                    Err(x) => Err(x.clone()),
                }
            };
            let reference = dec(&rc_, 0);
            let mut bad = false;
            for (name, r, i) in [("checked-dec/unchecked-enc", &rc_, 1), ("unchecked-dec/checked-enc", &ru, 0), ("unchecked-dec/unchecked-enc", &ru, 1)] {
                let got = dec(r, i);
                if got != reference {
                    bad = true;
                    col.outcome("differs");
                    col.fail(
                        format!("{}|{}-differs", head, name),
                        case(),
                        format!("checked/checked {:?} vs {} {:?}", reference.as_ref().map(|v| v.show()), name, got.as_ref().map(|v| v.show())),
                    );
                    break;
                }
            }
            if !bad {
                col.outcome("ok");
            }
        }
    });
}

// ------------------------------------------------------------------------------------------
// C12 generated half

pub fn c12(cx: &Ctx, col: &mut Collector) {
    let (bound, all_below, cap) = if cx.thorough { (2usize, 12usize, 100_000u64) } else { (1usize, 8usize, 10_000u64) };
    super::tchecks::for_each_type_pub(cx, col, &["k0"], |col, e, doc, def| {
        let g = Gen { doc, thorough: cx.thorough };
        let mut inputs: Vec<(String, Val)> = seed_values(&g, def).into_iter().map(|v| ("valid".to_string(), v)).collect();
        if def.kind == "struct" {
            if let Some(base) = base_values(&g, def).into_iter().next() {
                for (n, w) in with_extras(doc, def, &base, false).into_iter().filter(|x| x.0.starts_with("one:")) {
                    inputs.push((format!("unknown-{}", n), w));
                }
            }
        }
        for (kind, w) in inputs {
            for prot in SAFE {
                if !col.next_case(kind.split(':').next().unwrap()) {
                    continue;
                }
                col.nontrivial += 1;
                let enc = rc::encode(prot.wire(), &w);
                let mut bytes = enc.clone();
                bytes.extend_from_slice(&[0xEE; 16]);
                let sync = (e.ops.transcode)(&Req { bytes: &enc, dec: Dec::Sync(prot), enc: &[Prot::Binary], guard: None });
                let sync_val = sync.enc.first().and_then(|x| x.out.as_ref().ok()).and_then(|x| rc::decode(rc::Proto::Binary, doc.wire_def(def), &x.0).ok()).map(|x| canon(&x.0));
                let mut judge = |col: &mut Collector, r: &Resp, sched: Value| {
                    col.evaluations += 1;
                    for (off, ans, want) in &r.log {
                        let st = (*off as u64).min(255);
                        col.states.insert(st);
                        col.transitions.insert(st | ((*ans as u64) << 12) | (((*want).min(63) as u64) << 16));
                    }
                    let case = || json!({"doc": e.doc, "cfg": e.cfg, "ty": e.ty, "prot": prot.name(), "kind": kind, "writer": w, "schedule": sched, "show": w.show()});
                    let head = format!("C12|gen|async-{}|{}", prot.name(), kind.split(':').next().unwrap());
                    match (&sync.dec, &r.dec) {
                        (DecRes::Panic(_), _) => col.outcome("skipped-sync-panics"),
                        (_, DecRes::Panic(p)) => col.fail(format!("{}|async-{}", head, p), case(), p.clone()),
                        (_, DecRes::Exec(x)) => col.fail(format!("{}|executor:{}", head, x), case(), x.clone()),
                        (DecRes::Ok, DecRes::Ok) => {
                            let av = r.enc.first().and_then(|x| x.out.as_ref().ok()).and_then(|x| rc::decode(rc::Proto::Binary, doc.wire_def(def), &x.0).ok()).map(|x| canon(&x.0));
                            if av != sync_val {
                                col.outcome("value-differs");
                                col.fail(format!("{}|value-differs", head), case(), format!("sync {:?} async {:?}", sync_val.as_ref().map(|v| v.show()), av.as_ref().map(|v| v.show())));
                            } else if r.consumed != enc.len() {
                                col.outcome("read-past-end");
                                col.fail(format!("{}|read-past-message", head), case(), format!("took {} bytes of a {}-byte message", r.consumed, enc.len()));
                            } else {
                                col.outcome("ok=ok");
                            }
                        }
                        (DecRes::Err(..), DecRes::Err(..)) => col.outcome("err=err"),
                        (DecRes::Err(a, b), DecRes::Ok) => col.fail(format!("{}|async-accepts-what-sync-rejects", head), case(), format!("sync {} {}", a, b)),
                        (DecRes::Ok, DecRes::Err(a, b)) => {
                            col.fail(format!("{}|async-rejects-what-sync-accepts:{}", head, super::tchecks::mask(&format!("{}:{}", a, b))), case(), format!("async {} {}", a, b))
                        }
                        (DecRes::Exec(_), _) => {}
                    }
                };
                for (mode, name) in [(Mode::All, "all"), (Mode::OneByte, "one-byte"), (Mode::PendingEvery, "pending-every")] {
                    let r = (e.ops.transcode)(&Req { bytes: &bytes, dec: Dec::Async(prot, mode, std::ptr::null_mut()), enc: &[Prot::Binary], guard: None });
                    judge(col, &r, json!(name));
                }
                let exhaustive = enc.len() <= all_below;
                let st = explore::explore(if exhaustive { usize::MAX } else { bound }, cap, |ctx| {
                    let r = (e.ops.transcode)(&Req { bytes: &bytes, dec: Dec::Async(prot, Mode::Explore, ctx as *mut ECtx), enc: &[Prot::Binary], guard: None });
                    judge(col, &r, json!(ctx.choices()));
                });
                if st.capped {
                    col.caps.push(format!("schedule cap {} hit", cap));
                }
            }
        }
    });
}

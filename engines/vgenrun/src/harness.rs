//! Generic harness over the generated corpus: the emitted crate `include!`s every generated file
//! and hands a registry of monomorphic op tables to `main`.

#[path = "ops.rs"]
pub mod ops;
#[path = "schema.rs"]
pub mod schema;
#[path = "tchecks.rs"]
pub mod tchecks;
#[path = "tchecks2.rs"]
pub mod tchecks2;

pub use ops::{entry, entry_default, Entry};
use vcore::report::{install_silent_panic_hook, Args};

pub struct Harness {
    pub entries: Vec<Entry>,
    pub schema_path: &'static str,
}

pub fn main(h: Harness) {
    let a = Args::parse();
    install_silent_panic_hook();
    if let Err(e) = vcore::refcodec::self_check() {
        eprintln!("MACHINERY: {}", e);
        std::process::exit(2);
    }
    let docs = schema::Schema::load(h.schema_path);
    if let Some(path) = &a.replay {
        let txt = std::fs::read_to_string(path).expect("read replay file");
        let v: serde_json::Value = serde_json::from_str(&txt).expect("parse replay file");
        let r1 = tchecks::replay(&h, &docs, &a, &v);
        let r2 = tchecks::replay(&h, &docs, &a, &v);
        let s1: Vec<&String> = r1.iter().map(|x| &x.0).collect();
        let s2: Vec<&String> = r2.iter().map(|x| &x.0).collect();
        if s1 != s2 {
            eprintln!("MACHINERY: nondeterministic replay: {:?} vs {:?}", s1, s2);
            std::process::exit(2);
        }
        let want = v["sig"].as_str().unwrap_or("");
        for (s, d) in &r1 {
            println!("OBSERVED {} :: {}", s, d);
        }
        if r1.iter().any(|x| x.0 == want) {
            println!("REPRODUCED {}", want);
            std::process::exit(1);
        }
        println!("NOT-REPRODUCED {}", want);
        std::process::exit(0);
    }
    tchecks::run(&h, &docs, &a);
}

//! Monomorphic operation tables over generated types: values of generated types are only ever
//! obtained by decoding bytes and only ever inspected by encoding them.

use bytes::{Bytes, BytesMut};
use pilota::thrift::{binary, binary_le, binary_unsafe, compact, Message, TLengthProtocol, ThriftException};
use std::sync::atomic::Ordering::SeqCst;
use vcore::explore::Ctx;
use vcore::report::{catch, panic_sig, Caught};
use vdrive::aio::{self, Mode, Script};
use vdrive::drive::{err_class, Prot, SENTINEL, SLACK};
use vdrive::{with_in, with_out};

#[derive(Clone, Copy, Debug)]
pub enum Dec {
    Sync(Prot),
    Async(Prot, Mode, *mut Ctx),
}

pub struct Req<'a> {
    pub bytes: &'a [u8],
    pub dec: Dec,
    /// protocols to re-encode the decoded value with
    pub enc: &'a [Prot],
    /// place the input so that it ends at a guard page (unchecked reader)
    pub guard: Option<&'a vcore::guard::Arena>,
}

#[derive(Debug, Clone, PartialEq)]
pub enum DecRes {
    Ok,
    Err(String, String),
    Panic(String),
    Exec(String),
}

#[derive(Debug, Clone)]
pub struct EncRes {
    pub prot: Prot,
    /// Ok((bytes, reported size, sentinel intact)) or failure class
    pub out: Result<(Vec<u8>, usize, bool), String>,
}

pub struct Resp {
    pub dec: DecRes,
    pub consumed: usize,
    pub enc: Vec<EncRes>,
    pub live_before: usize,
    pub live_after: usize,
    pub alloc_total: usize,
    pub alloc_max: usize,
    pub polls: u64,
    pub log: Vec<(u32, u8, u32)>,
    pub debug: String,
}

pub struct Ops {
    pub transcode: fn(&Req) -> Resp,
    pub size_of: usize,
}

pub struct Entry {
    pub doc: &'static str,
    pub cfg: &'static str,
    pub ty: &'static str,
    pub path: &'static str,
    pub ops: Ops,
    pub default_encode: Option<fn(Prot) -> Result<Vec<u8>, String>>,
}

pub fn entry<T: Message + std::fmt::Debug + 'static>(doc: &'static str, cfg: &'static str, ty: &'static str, path: &'static str) -> Entry {
    Entry { doc, cfg, ty, path, ops: Ops { transcode: transcode::<T>, size_of: std::mem::size_of::<T>() }, default_encode: None }
}

pub fn entry_default<T: Message + Default + std::fmt::Debug + 'static>(doc: &'static str, cfg: &'static str, ty: &'static str, path: &'static str) -> Entry {
    let mut e = entry::<T>(doc, cfg, ty, path);
    e.default_encode = Some(default_encode::<T>);
    e
}

fn size_with<T: Message>(v: &T, prot: Prot) -> usize {
    match prot {
        Prot::Binary => v.size(&mut binary::TBinaryProtocol::new((), false)),
        Prot::BinaryLe => v.size(&mut binary_le::TBinaryProtocol::new((), false)),
        Prot::Compact => v.size(&mut compact::TCompactOutputProtocol::new((), false)),
        Prot::Unsafe => {
            let mut d: [u8; 0] = [];
            let s: &'static mut [u8] = unsafe { std::mem::transmute(&mut d[..]) };
            let mut p = unsafe { binary_unsafe::TBinaryUnsafeOutputProtocol::new((), s, false) };
            v.size(&mut p)
        }
    }
}

pub fn encode_with<T: Message>(v: &T, prot: Prot) -> Result<(Vec<u8>, usize, bool), String> {
    let r = catch(|| -> Result<(Vec<u8>, usize, bool), ThriftException> {
        let size = size_with(v, prot);
        let mut b = BytesMut::new();
        if prot == Prot::Unsafe {
            // exact window + painted slack
            let cap = size + SLACK;
            b.resize(cap, SENTINEL);
            let s: &'static mut [u8] = unsafe { std::slice::from_raw_parts_mut(b.as_mut_ptr(), cap) };
            let idx;
            {
                let mut p = unsafe { binary_unsafe::TBinaryUnsafeOutputProtocol::new(&mut b, s, false) };
                v.encode(&mut p)?;
                idx = p.index();
            }
            let sentinel_ok = b[size.min(cap)..].iter().all(|x| *x == SENTINEL);
            return Ok((b[..idx.min(cap)].to_vec(), size, sentinel_ok));
        }
        with_out!(prot, &mut b, 0, p => v.encode(&mut p)?);
        Ok((b.to_vec(), size, true))
    });
    match r {
        Caught::Ok(Ok(x)) => Ok(x),
        Caught::Ok(Err(e)) => Err(format!("err:{}", err_class(&e))),
        Caught::Panic(loc, msg) => Err(panic_sig(&loc, &msg)),
    }
}

fn default_encode<T: Message + Default>(prot: Prot) -> Result<Vec<u8>, String> {
    match catch(|| T::default()) {
        Caught::Ok(v) => encode_with(&v, prot).map(|x| x.0),
        Caught::Panic(loc, msg) => Err(panic_sig(&loc, &msg)),
    }
}

fn transcode<T: Message + std::fmt::Debug>(r: &Req) -> Resp {
    let live_before = vcore::alloc::live();
    vcore::alloc::window_start();
    let mut resp = Resp {
        dec: DecRes::Ok,
        consumed: 0,
        enc: vec![],
        live_before,
        live_after: 0,
        alloc_total: 0,
        alloc_max: 0,
        polls: 0,
        log: vec![],
        debug: String::new(),
    };
    {
        let total = r.bytes.len();
        let decoded: Option<T> = match r.dec {
            Dec::Sync(prot) => {
                let mut input = match r.guard {
                    Some(a) => Bytes::from_static(a.place(r.bytes)),
                    None => Bytes::copy_from_slice(r.bytes),
                };
                let res = catch(|| -> Result<(T, usize), ThriftException> {
                    if prot == Prot::Unsafe {
                        let idx;
                        let v;
                        {
                            let mut p = unsafe { binary_unsafe::TBinaryUnsafeInputProtocol::new(&mut input) };
                            v = T::decode(&mut p)?;
                            idx = p.index();
                        }
                        Ok((v, (total - input.len()) + idx))
                    } else {
                        let v = with_in!(prot, &mut input, p => T::decode(&mut p)?);
                        Ok((v, total - input.len()))
                    }
                });
                match res {
                    Caught::Ok(Ok((v, c))) => {
                        resp.consumed = c;
                        Some(v)
                    }
                    Caught::Ok(Err(e)) => {
                        resp.dec = DecRes::Err(err_class(&e), e.message().to_string());
                        None
                    }
                    Caught::Panic(loc, msg) => {
                        resp.dec = DecRes::Panic(panic_sig(&loc, &msg));
                        None
                    }
                }
            }
            Dec::Async(prot, mode, ctx) => {
                let (script, shared) = Script::new(r.bytes.to_vec(), mode, ctx);
                let log = script.log.clone();
                let res = catch(|| {
                    macro_rules! go {
                        ($p:expr) => {{
                            let mut p = $p;
                            aio::block_on(async { T::decode_async(&mut p).await }, &shared)
                        }};
                    }
                    match prot {
                        Prot::Binary | Prot::Unsafe => go!(binary::TAsyncBinaryProtocol::new(script)),
                        Prot::BinaryLe => go!(binary_le::TAsyncBinaryProtocol::new(script)),
                        Prot::Compact => go!(compact::TAsyncCompactProtocol::new(script)),
                    }
                });
                resp.consumed = shared.pos.load(SeqCst);
                resp.polls = shared.polls.load(SeqCst);
                resp.log = log.lock().unwrap().clone();
                match res {
                    Caught::Ok(Ok(Ok(v))) => Some(v),
                    Caught::Ok(Ok(Err(e))) => {
                        resp.dec = DecRes::Err(err_class(&e), e.message().to_string());
                        None
                    }
                    Caught::Ok(Err(x)) => {
                        resp.dec = DecRes::Exec(format!("{:?}", x));
                        None
                    }
                    Caught::Panic(loc, msg) => {
                        resp.dec = DecRes::Panic(panic_sig(&loc, &msg));
                        None
                    }
                }
            }
        };
        let s = vcore::alloc::window_read();
        resp.alloc_total = s.total;
        resp.alloc_max = s.maxreq;
        if let Some(v) = &decoded {
            for p in r.enc {
                resp.enc.push(EncRes { prot: *p, out: encode_with(v, *p) });
            }
            if std::env::var_os("VERIF_DEBUG_VALUES").is_some() {
                resp.debug = format!("{:?}", v);
            }
        }
        drop(decoded);
    }
    resp.live_after = vcore::alloc::live();
    resp
}

#[allow(dead_code)]
pub fn unused(_: &dyn TLengthProtocol) {}

//! Generated-code level checks for the Thrift corpus (C02, C04, C08, C09, C11, C12, C13, C19, C20).

use super::ops::{Dec, DecRes, Entry, Req, Resp};
use super::schema::{canon, Doc, Gen, TypeDef};
use super::Harness;
use serde_json::{json, Value};
use std::collections::HashMap;
use vcore::guard::Arena;
use vcore::refcodec::{self as rc};
use vcore::report::{Args, Collector};
use vcore::val::{Val, T};
use vdrive::aio::Mode;
use vdrive::drive::{Prot, ALL_PROT};

pub const SAFE: [Prot; 3] = [Prot::Binary, Prot::BinaryLe, Prot::Compact];

pub fn mask(s: &str) -> String {
    // drop back-ticked names and digits so that one defect gives one signature
    let mut out = String::new();
    let mut in_tick = false;
    for c in s.chars() {
        if c == '`' {
            in_tick = !in_tick;
            if in_tick {
                out.push('_');
            }
            continue;
        }
        if in_tick {
            continue;
        }
        out.push(if c.is_ascii_digit() { '#' } else { c });
    }
    // "field xyz is required" -> "field _ is required"
    if let Some(i) = out.find("field ") {
        if let Some(j) = out[i..].find(" is required") {
            out = format!("{}field _ is required{}", &out[..i], &out[i + j + 12..]);
        }
    }
    while out.contains("##") {
        out = out.replace("##", "#");
    }
    if out.len() > 70 {
        let mut n = 70;
        while !out.is_char_boundary(n) {
            n -= 1;
        }
        out.truncate(n);
    }
    out
}

pub fn dec_sig(d: &DecRes) -> String {
    match d {
        DecRes::Ok => "ok".into(),
        DecRes::Err(c, m) => format!("err:{}:{}", c, mask(m)),
        DecRes::Panic(p) => p.clone(),
        DecRes::Exec(x) => format!("executor:{}", x),
    }
}

pub struct Ctx<'a> {
    pub h: &'a Harness,
    pub docs: &'a HashMap<String, Doc>,
    pub thorough: bool,
    pub arena: Arena,
    /// restrict the iteration to one generated type (replay)
    pub only: Option<(String, String, String)>,
}

fn case_json(e: &Entry, v: &Val, extra: Value) -> Value {
    json!({"doc": e.doc, "cfg": e.cfg, "ty": e.ty, "val": v, "show": v.show(), "x": extra})
}

fn find_entry<'a>(h: &'a Harness, doc: &str, cfg: &str, ty: &str) -> Option<&'a Entry> {
    h.entries.iter().find(|e| e.doc == doc && e.cfg == cfg && e.ty == ty)
}

/// decode reference bytes of `v` with `inp`, re-encode with every protocol, compare
fn roundtrip_one(col: &mut Collector, cx: &Ctx, e: &Entry, doc: &Doc, def: &TypeDef, v: &Val, prop: &str, check_size_only: bool) {
    let g = Gen { doc, thorough: cx.thorough };
    let want = canon(&g.fill_defaults(def, v));
    let top = doc.wire_def(def);
    // pilota generates a "consume everything that remains" shortcut for types referenced from
    // method arguments when unknown-field retention is on: failures of such types are tagged so
    // that the recorded finding cannot mask anything else
    let tag = if e.cfg.ends_with('1') && def.arg_ref { "[arg-type+retention]" } else { "" };
    if !tag.is_empty() {
        col.tag_case(1);
    }
    let prop = &format!("{}{}", prop, tag);
    for inp in ALL_PROT {
        let bytes = rc::encode(inp.wire(), v);
        // sync, async with everything delivered at once, async one byte per poll
        for amode in [None, Some(Mode::All), Some(Mode::OneByte)] {
            let is_async = amode.is_some();
            if is_async && (inp == Prot::Unsafe || check_size_only) {
                continue;
            }
            col.evaluations += 1;
            let dec = match amode {
                Some(mo) => Dec::Async(inp, mo, std::ptr::null_mut()),
                None => Dec::Sync(inp),
            };
            let guard = if inp == Prot::Unsafe { Some(&cx.arena) } else { None };
            let enc: &[Prot] = if is_async { &[Prot::Binary] } else { &ALL_PROT };
            let r: Resp = (e.ops.transcode)(&Req { bytes: &bytes, dec, enc, guard });
            let how = format!("{}{}", match amode { Some(Mode::OneByte) => "async1-", Some(_) => "async-", None => "" }, inp.name());
            let case = |x: Value| case_json(e, v, json!({"in": how, "more": x}));
            if r.dec != DecRes::Ok {
                col.outcome("decode-fail");
                if !check_size_only {
                    col.fail(format!("{}|{}|decode|{}|{}", prop, e.cfg, how, dec_sig(&r.dec)), case(json!(null)), format!("{:?} on {}", r.dec, v.show()));
                }
                continue;
            }
            if r.consumed != bytes.len() && !check_size_only {
                col.outcome("consumed");
                col.fail(format!("{}|{}|decode|{}|consumed", prop, e.cfg, how), case(json!(null)), format!("consumed {} of {}", r.consumed, bytes.len()));
                continue;
            }
            for er in &r.enc {
                col.evaluations += 1;
                match &er.out {
                    Err(x) => {
                        col.outcome("encode-fail");
                        if !check_size_only {
                            col.fail(format!("{}|{}|encode|{}|{}", prop, e.cfg, er.prot.name(), x), case(json!({"out": er.prot.name()})), x.clone());
                        }
                    }
                    Ok((out, size, sentinel)) => {
                        if check_size_only {
                            if *size != out.len() {
                                col.outcome("size-mismatch");
                                col.fail(
                                    format!("C04|{}|generated-size|{}", e.cfg, er.prot.name()),
                                    case(json!({"out": er.prot.name()})),
                                    format!("size() = {} but {} bytes written for {}", size, out.len(), v.show()),
                                );
                            } else if !sentinel {
                                col.fail(format!("C04|{}|generated-size|{}|out-of-window", e.cfg, er.prot.name()), case(json!(null)), "wrote beyond size()".into());
                            } else {
                                col.outcome("size-ok");
                            }
                            continue;
                        }
                        match rc::decode(er.prot.wire(), top, out) {
                            Ok((got, used)) => {
                                let got = canon(&got);
                                if let Some(d) = want.first_diff(&got) {
                                    col.outcome("mismatch");
                                    col.fail(
                                        format!("{}|{}|{}->{}|mismatch:{}", prop, e.cfg, how, er.prot.name(), d.rsplit('/').next().unwrap_or("")),
                                        case(json!({"out": er.prot.name()})),
                                        format!("want {} got {}", want.show(), got.show()),
                                    );
                                } else if used != out.len() {
                                    col.outcome("trailing");
                                    col.fail(format!("{}|{}|{}->{}|trailing", prop, e.cfg, how, er.prot.name()), case(json!(null)), format!("{} of {}", used, out.len()));
                                } else {
                                    col.outcome("ok");
                                }
                            }
                            Err(x) => {
                                col.outcome("invalid-output");
                                col.fail(
                                    format!("{}|{}|{}->{}|output-not-valid:{}", prop, e.cfg, how, er.prot.name(), format!("{:?}", x).replace(|c: char| c.is_ascii_digit(), "#")),
                                    case(json!({"out": er.prot.name()})),
                                    format!("reference decoder rejects re-encoding {:02x?}: {:?}", &out[..out.len().min(48)], x),
                                );
                            }
                        }
                    }
                }
            }
        }
    }
}

pub fn for_each_type_pub(cx: &Ctx, col: &mut Collector, cfgs: &[&str], f: impl FnMut(&mut Collector, &Entry, &Doc, &TypeDef)) {
    for_each_type(cx, col, cfgs, f)
}

fn for_each_type(cx: &Ctx, col: &mut Collector, cfgs: &[&str], mut f: impl FnMut(&mut Collector, &Entry, &Doc, &TypeDef)) {
    let mut matched = 0;
    for e in &cx.h.entries {
        if !cfgs.contains(&e.cfg) {
            continue;
        }
        if let Some((d, c, t)) = &cx.only {
            if e.doc != d || e.cfg != c || e.ty != t {
                continue;
            }
        }
        let doc = match cx.docs.get(e.doc) {
            Some(d) => d,
            None => continue,
        };
        let def = match doc.types.get(e.ty) {
            Some(d) => d,
            None => {
                col.notes.push(format!("generated type {}::{} has no schema entry (skipped)", e.doc, e.ty));
                continue;
            }
        };
        matched += 1;
        f(col, e, doc, def);
    }
    // declared (non synthesised) schema types that have no generated counterpart
    for (dn, d) in cx.docs {
        for (tn, t) in &d.types {
            if !t.synth && !cx.h.entries.iter().any(|e| e.doc == dn && e.ty == tn) && !cx.h.entries.is_empty() && cx.h.entries.iter().any(|e| e.doc == dn) {
                col.notes.push(format!("schema type {}::{} not found in the generated code", dn, tn));
            }
        }
    }
    col.count("types_matched", matched);
}

fn c02(cx: &Ctx, col: &mut Collector, prop: &str) {
    let size_only = prop == "C04";
    let cfgs: &[&str] = &["k0", "k1"];
    for_each_type(cx, col, cfgs, |col, e, doc, def| {
        let g = Gen { doc, thorough: cx.thorough };
        for v in g.values(def) {
            if !col.next_case(e.doc) {
                continue;
            }
            col.nontrivial += 1;
            if col.samples.len() < 10 && col.cur_index() % 211 == 0 {
                col.sample(json!({"type": format!("{}::{}", e.doc, e.ty), "cfg": e.cfg, "value": v.show()}));
            }
            roundtrip_one(col, cx, e, doc, def, &v, prop, size_only);
        }
    });
}

fn c20(cx: &Ctx, col: &mut Collector) {
    for_each_type(cx, col, &["k0", "k1"], |col, e, doc, def| {
        if def.kind != "struct" || def.synth {
            return;
        }
        let de = match e.default_encode {
            Some(f) => f,
            None => {
                if col.next_case("no-default") {
                    col.fail("C20|no-Default-impl".into(), json!({"doc": e.doc, "ty": e.ty}), "struct has no Default impl".into());
                }
                return;
            }
        };
        if !col.next_case(e.doc) {
            return;
        }
        col.nontrivial += 1;
        // expected default value from the IDL: every field with a default holds it (both
        // requiredness kinds); required fields without default hold the type's empty value;
        // optional fields without default are absent.
        let g = Gen { doc, thorough: cx.thorough };
        let mut want = Vec::new();
        for f in &def.fields {
            if let Some(d) = &f.default {
                want.push((f.id, d.clone()));
            } else if f.required() {
                want.push((f.id, empty_of(doc, &f.ty, &g)));
            }
        }
        let want = canon(&Val::Struct(want));
        if col.samples.len() < 8 {
            col.sample(json!({"type": format!("{}::{}", e.doc, e.ty), "expected_default": want.show()}));
        }
        for prot in ALL_PROT {
            col.evaluations += 1;
            let case = || json!({"doc": e.doc, "cfg": e.cfg, "ty": e.ty, "prot": prot.name()});
            match de(prot) {
                Err(x) => col.fail(format!("C20|{}|default-encode|{}", e.cfg, x), case(), x.clone()),
                Ok(bytes) => match rc::decode(prot.wire(), T::Struct, &bytes) {
                    Ok((got, used)) => {
                        let got = canon(&got);
                        if let Some(d) = want.first_diff(&got) {
                            col.outcome("default-mismatch");
                            // name the field kind: id of the first differing field
                            let fid = first_diff_field(&want, &got);
                            let fname = def.fields.iter().find(|f| Some(f.id) == fid).map(|f| f.name.clone()).unwrap_or_default();
                            col.fail(
                                format!("C20|{}|default-value|{}|{}:{}", e.cfg, def.fields.iter().find(|f| Some(f.id) == fid).map(|f| f.req.clone()).unwrap_or_default(), fname, d.rsplit('/').next().unwrap_or("")),
                                case(),
                                format!("Default::default() encodes as {} but the IDL says {}", got.show(), want.show()),
                            );
                        } else if used != bytes.len() {
                            col.fail(format!("C20|{}|default-encode|trailing", e.cfg), case(), "trailing bytes".into());
                        } else {
                            col.outcome("default-ok");
                        }
                    }
                    Err(x) => col.fail(format!("C20|{}|default-encode|not-valid", e.cfg), case(), format!("{:?}", x)),
                },
            }
            // the same value as decoding an empty struct, whenever that succeeds
            if prot != Prot::Unsafe {
                col.evaluations += 1;
                let empty = rc::encode(prot.wire(), &Val::Struct(vec![]));
                let r = (e.ops.transcode)(&Req { bytes: &empty, dec: Dec::Sync(prot), enc: &[prot], guard: None });
                if r.dec == DecRes::Ok {
                    if let Some(Ok((out, _, _))) = r.enc.first().map(|x| x.out.clone()) {
                        match rc::decode(prot.wire(), T::Struct, &out) {
                            Ok((got, _)) => {
                                if let Some(d) = want.first_diff(&canon(&got)) {
                                    col.outcome("empty-decode-mismatch");
                                    col.fail(
                                        format!("C20|{}|decode-empty-vs-default|{}", e.cfg, d.rsplit('/').next().unwrap_or("")),
                                        case(),
                                        format!("decode(empty struct) = {} but the IDL default value is {}", canon(&got).show(), want.show()),
                                    );
                                } else {
                                    col.outcome("empty-decode-ok");
                                }
                            }
                            Err(x) => col.fail(format!("C20|{}|decode-empty|not-valid", e.cfg), case(), format!("{:?}", x)),
                        }
                    }
                } else {
                    col.outcome("empty-decode-err");
                }
            }
        }
    });
}

fn first_diff_field(a: &Val, b: &Val) -> Option<i16> {
    if let (Val::Struct(x), Val::Struct(y)) = (a, b) {
        for i in 0..x.len().max(y.len()) {
            match (x.get(i), y.get(i)) {
                (Some(p), Some(q)) if p == q => continue,
                (Some(p), Some(q)) => return Some(p.0.min(q.0)),
                (Some(p), None) => return Some(p.0),
                (None, Some(q)) => return Some(q.0),
                _ => {}
            }
        }
    }
    None
}

/// the "empty value" of a type: what a required field without IDL default holds in Default
fn empty_of(doc: &Doc, ty: &super::schema::Ty, g: &Gen) -> Val {
    match ty.t.as_str() {
        "bool" => Val::Bool(false),
        "byte" | "i8" => Val::I8(0),
        "i16" => Val::I16(0),
        "i32" => Val::I32(0),
        "i64" => Val::I64(0),
        "double" => Val::Double(0),
        "string" | "binary" => Val::Bin(vec![]),
        "uuid" => Val::Uuid([0; 16]),
        "list" => Val::List(doc.wire(ty.e.as_ref().unwrap()), vec![]),
        "set" => Val::Set(doc.wire(ty.e.as_ref().unwrap()), vec![]),
        "map" => Val::Map(doc.wire(ty.k.as_ref().unwrap()), doc.wire(ty.v.as_ref().unwrap()), vec![]),
        "ref" => {
            let d = &doc.types[ty.name.as_ref().unwrap()];
            match d.kind.as_str() {
                "enum" => Val::I32(0),
                "typedef" => empty_of(doc, d.ty.as_ref().unwrap(), g),
                "struct" => {
                    let mut fs = Vec::new();
                    for f in &d.fields {
                        if let Some(dv) = &f.default {
                            fs.push((f.id, dv.clone()));
                        } else if f.required() {
                            fs.push((f.id, empty_of(doc, &f.ty, g)));
                        }
                    }
                    Val::Struct(fs)
                }
                // a union's Default is its first variant holding that variant's empty value
                _ => match d.fields.first() {
                    Some(f) => Val::Struct(vec![(f.id, empty_of(doc, &f.ty, g))]),
                    None => Val::Struct(vec![]),
                },
            }
        }
        _ => unreachable!(),
    }
}

pub fn run(h: &Harness, docs: &HashMap<String, Doc>, a: &Args) {
    let cx = Ctx { h, docs, thorough: a.thorough(), arena: Arena::new(8 << 20), only: None };
    let mut col = Collector::new(&a.check, a);
    match a.check.as_str() {
        "C02" => c02(&cx, &mut col, "C02"),
        "C04" => c02(&cx, &mut col, "C04"),
        "C20" => c20(&cx, &mut col),
        "C08" => super::tchecks2::c08(&cx, &mut col),
        "C13" => super::tchecks2::c13(&cx, &mut col),
        "C09" => super::tchecks2::c09(&cx, &mut col, false),
        "C19" => super::tchecks2::c09(&cx, &mut col, true),
        "C11" => super::tchecks2::c11(&cx, &mut col),
        "C12" => super::tchecks2::c12(&cx, &mut col),
        "list" => {
            for e in &h.entries {
                println!("{} {} {} {} size_of={}", e.doc, e.cfg, e.ty, e.path, e.ops.size_of);
            }
            return;
        }
        other => {
            eprintln!("MACHINERY: unknown check {}", other);
            std::process::exit(2);
        }
    }
    col.finish(&a.out);
}

pub fn replay(h: &Harness, docs: &HashMap<String, Doc>, a: &Args, r: &Value) -> Vec<(String, String)> {
    let mut a2 = a.clone();
    a2.progress = None;
    let prop = r["property"].as_str().unwrap_or("").to_string();
    let thorough = r["tier"].as_str() == Some("thorough");
    let only = Some((
        r["case"]["doc"].as_str().unwrap_or("").to_string(),
        r["case"]["cfg"].as_str().unwrap_or("").to_string(),
        r["case"]["ty"].as_str().unwrap_or("").to_string(),
    ));
    let cx = Ctx { h, docs, thorough, arena: Arena::new(8 << 20), only: if matches!(prop.as_str(), "C02" | "C04" | "C20") { None } else { only } };
    let mut col = Collector::new(&prop, &a2);
    col.index = 1;
    let case = &r["case"];
    let (doc, cfg, ty) = (case["doc"].as_str().unwrap_or(""), case["cfg"].as_str().unwrap_or(""), case["ty"].as_str().unwrap_or(""));
    let e = match find_entry(h, doc, cfg, ty) {
        Some(e) => e,
        None => {
            eprintln!("MACHINERY: type {}::{} [{}] is not in this harness", doc, ty, cfg);
            std::process::exit(2);
        }
    };
    let d = &docs[doc];
    let def = &d.types[ty];
    match prop.as_str() {
        "C02" | "C04" => {
            let v: Val = serde_json::from_value(case["val"].clone()).unwrap();
            roundtrip_one(&mut col, &cx, e, d, def, &v, &prop, prop == "C04");
        }
        "C20" => {
            // re-run the whole (tiny) check and keep this type's findings
            let mut c2 = Collector::new("C20", &a2);
            c20(&cx, &mut c2);
            for (s, g) in c2.failures {
                if g.case["ty"] == case["ty"] && g.case["doc"] == case["doc"] && g.case["cfg"] == case["cfg"] {
                    col.failures.insert(s, g);
                }
            }
        }
        // the other generated-code checks are replayed by re-running the check restricted to the
        // recorded generated type (sub-second) and reporting every failure of that type
        "C08" => super::tchecks2::c08(&cx, &mut col),
        "C13" => super::tchecks2::c13(&cx, &mut col),
        "C09" => super::tchecks2::c09(&cx, &mut col, false),
        "C19" => super::tchecks2::c09(&cx, &mut col, true),
        "C11" => super::tchecks2::c11(&cx, &mut col),
        "C12" => super::tchecks2::c12(&cx, &mut col),
        _ => {}
    }
    col.failures.iter().map(|(s, g)| (s.clone(), g.detail.clone())).collect()
}

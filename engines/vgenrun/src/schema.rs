//! Schema model of the generated corpora (written by lib/corpus.py) and schema-directed value
//! enumeration. Everything here is independent of pilota.

use serde::Deserialize;
use std::collections::HashMap;
use vcore::refcodec::{self as rc, Proto};
use vcore::val::{Val, T};

#[derive(Deserialize, Debug, Clone)]
pub struct Ty {
    pub t: String,
    #[serde(default)]
    pub e: Option<Box<Ty>>,
    #[serde(default)]
    pub k: Option<Box<Ty>>,
    #[serde(default)]
    pub v: Option<Box<Ty>>,
    #[serde(default)]
    pub name: Option<String>,
}

#[derive(Deserialize, Debug, Clone)]
pub struct Field {
    pub id: i16,
    pub name: String,
    pub req: String,
    pub ty: Ty,
    #[serde(default)]
    pub default: Option<Val>,
}

impl Field {
    pub fn required(&self) -> bool {
        self.req == "required"
    }
}

#[derive(Deserialize, Debug, Clone)]
pub struct TypeDef {
    pub name: String,
    pub kind: String,
    #[serde(default)]
    pub fields: Vec<Field>,
    #[serde(default)]
    pub values: Vec<(String, i32)>,
    #[serde(default)]
    pub ty: Option<Ty>,
    #[serde(default)]
    pub synth: bool,
    #[serde(default)]
    pub is_arg: bool,
    #[serde(default)]
    pub void_ok: bool,
    /// referenced from a method argument type (pilota marks such types "is_arg")
    #[serde(default)]
    pub arg_ref: bool,
}

#[derive(Deserialize, Debug, Clone)]
pub struct DocSchema {
    pub name: String,
    pub types: Vec<TypeDef>,
}

#[derive(Deserialize, Debug, Clone)]
pub struct Schema {
    pub docs: Vec<DocSchema>,
}

pub struct Doc {
    pub name: String,
    pub types: HashMap<String, TypeDef>,
    pub order: Vec<String>,
}

impl Schema {
    pub fn load(path: &str) -> HashMap<String, Doc> {
        let txt = std::fs::read_to_string(path).unwrap_or_else(|e| panic!("MACHINERY: cannot read schema {}: {}", path, e));
        let s: Schema = serde_json::from_str(&txt).unwrap_or_else(|e| panic!("MACHINERY: bad schema: {}", e));
        s.docs
            .into_iter()
            .map(|d| {
                let order = d.types.iter().map(|t| t.name.clone()).collect();
                (d.name.clone(), Doc { name: d.name, types: d.types.into_iter().map(|t| (t.name.clone(), t)).collect(), order })
            })
            .collect()
    }
}

impl Doc {
    pub fn wire(&self, ty: &Ty) -> T {
        match ty.t.as_str() {
            "bool" => T::Bool,
            "byte" | "i8" => T::I8,
            "i16" => T::I16,
            "i32" => T::I32,
            "i64" => T::I64,
            "double" => T::Double,
            "string" | "binary" => T::Bin,
            "uuid" => T::Uuid,
            "list" => T::List,
            "set" => T::Set,
            "map" => T::Map,
            "ref" => {
                let d = self.types.get(ty.name.as_ref().unwrap()).unwrap_or_else(|| panic!("MACHINERY: unknown type {:?}", ty.name));
                self.wire_def(d)
            }
            x => panic!("MACHINERY: unknown ty {}", x),
        }
    }
    pub fn wire_def(&self, d: &TypeDef) -> T {
        match d.kind.as_str() {
            "struct" | "union" => T::Struct,
            "enum" => T::I32,
            "typedef" => self.wire(d.ty.as_ref().unwrap()),
            x => panic!("MACHINERY: kind {}", x),
        }
    }
}

// ------------------------------------------------------------------------------------------
// leaf alphabets (quick size 4; thorough adds more)

pub fn leaf_alphabet(t: &str, thorough: bool) -> Vec<Val> {
    let mut v = match t {
        "bool" => vec![Val::Bool(true), Val::Bool(false)],
        "byte" | "i8" => vec![Val::I8(0), Val::I8(1), Val::I8(-128), Val::I8(127)],
        "i16" => vec![Val::I16(0), Val::I16(-1), Val::I16(i16::MIN), Val::I16(i16::MAX), Val::I16(64)],
        "i32" => vec![Val::I32(0), Val::I32(-1), Val::I32(i32::MIN), Val::I32(i32::MAX), Val::I32(8192)],
        "i64" => vec![Val::I64(0), Val::I64(-1), Val::I64(i64::MIN), Val::I64(i64::MAX), Val::I64(1 << 35)],
        "double" => vec![
            Val::Double(0),
            Val::Double(1.5f64.to_bits()),
            Val::Double((-2.25f64).to_bits()),
            Val::Double(0x7ff0_0000_0000_0000),
            Val::Double(0x0102_0304_0506_0708),
        ],
        "string" => vec![Val::Bin(vec![]), Val::Bin(b"a".to_vec()), Val::Bin("h\u{e9}llo w\u{f6}rld".as_bytes().to_vec()), Val::Bin(vcore::val::bin_of_len(200))],
        "binary" => vec![Val::Bin(vec![]), Val::Bin(vec![0]), Val::Bin(vec![0xff, 0x00, 0x80, 0x7f]), Val::Bin(vcore::val::bin_of_len(130))],
        "uuid" => vec![Val::Uuid([0; 16]), Val::Uuid([0xff; 16]), Val::Uuid([0, 1, 2, 3, 4, 5, 6, 7, 8, 9, 10, 11, 12, 13, 14, 15])],
        x => panic!("MACHINERY: leaf {}", x),
    };
    if thorough {
        match t {
            "i16" => v.extend([Val::I16(63), Val::I16(-64), Val::I16(-65), Val::I16(8191), Val::I16(8192)]),
            "i32" => v.extend([Val::I32(63), Val::I32(-65), Val::I32(1 << 20), Val::I32(-(1 << 27) - 1)]),
            "i64" => v.extend([Val::I64(1 << 48), Val::I64(-(1 << 55) - 1), Val::I64(1 << 62)]),
            "double" => v.extend([Val::Double(0x8000_0000_0000_0000), Val::Double(0x7ff8_0000_0000_0001), Val::Double(1)]),
            "string" => v.push(Val::Bin(vcore::val::bin_of_len(5000))),
            "binary" => v.push(Val::Bin(vcore::val::bin_of_len(4096))),
            _ => {}
        }
    }
    v
}

/// distinct "key-safe" values (no two compare equal in the generated container types)
pub fn leaf_distinct(t: &str, i: usize) -> Val {
    match t {
        "bool" => Val::Bool(i % 2 == 0),
        "byte" | "i8" => Val::I8([3i8, -7, 100][i % 3]),
        "i16" => Val::I16([300i16, -7, 12345][i % 3]),
        "i32" => Val::I32([70000, -7, 1][i % 3]),
        "i64" => Val::I64([5_000_000_000, -7, 1][i % 3]),
        "double" => Val::Double([1.5f64, -2.25, 1e300][i % 3].to_bits()),
        "string" => Val::Bin([&b"k1"[..], b"key-two", b""][i % 3].to_vec()),
        "binary" => Val::Bin([&b"\x00\x01"[..], b"bin2", b""][i % 3].to_vec()),
        "uuid" => Val::Uuid([[1u8; 16], [2; 16], [0xfe; 16]][i % 3]),
        x => panic!("MACHINERY: leaf {}", x),
    }
}

pub struct Gen<'a> {
    pub doc: &'a Doc,
    pub thorough: bool,
}

impl<'a> Gen<'a> {
    /// one representative value of a type; `i` makes sibling elements distinct; `rich` fills
    /// optional fields; `depth` bounds recursion.
    pub fn one(&self, ty: &Ty, i: usize, rich: bool, depth: usize) -> Val {
        match ty.t.as_str() {
            "list" => {
                let e = ty.e.as_ref().unwrap();
                let n = if rich { 2 } else { 1 };
                Val::List(self.doc.wire(e), (0..n).map(|j| self.one(e, i + j, rich, depth + 1)).collect())
            }
            "set" => {
                let e = ty.e.as_ref().unwrap();
                let n = if rich && self.distinctable(e) { 2 } else { 1 };
                Val::Set(self.doc.wire(e), (0..n).map(|j| self.one(e, i + j, rich, depth + 1)).collect())
            }
            "map" => {
                let (k, v) = (ty.k.as_ref().unwrap(), ty.v.as_ref().unwrap());
                let n = if rich && self.distinctable(k) { 2 } else { 1 };
                Val::Map(
                    self.doc.wire(k),
                    self.doc.wire(v),
                    (0..n).map(|j| (self.one(k, i + j, rich, depth + 1), self.one(v, i + j + 1, rich, depth + 1))).collect(),
                )
            }
            "ref" => {
                let d = &self.doc.types[ty.name.as_ref().unwrap()];
                self.one_def(d, i, rich, depth)
            }
            leaf => leaf_distinct(leaf, i),
        }
    }
    /// can two distinct values of this type be produced by varying `i`?
    fn distinctable(&self, ty: &Ty) -> bool {
        match ty.t.as_str() {
            "list" | "set" | "map" => false,
            "ref" => {
                let d = &self.doc.types[ty.name.as_ref().unwrap()];
                match d.kind.as_str() {
                    "enum" => d.values.len() >= 2,
                    "typedef" => self.distinctable(d.ty.as_ref().unwrap()),
                    "struct" => d.fields.iter().any(|f| f.required() && self.distinctable(&f.ty)) || d.fields.first().map(|f| self.distinctable(&f.ty)).unwrap_or(false),
                    _ => false,
                }
            }
            _ => true,
        }
    }
    pub fn one_def(&self, d: &TypeDef, i: usize, rich: bool, depth: usize) -> Val {
        match d.kind.as_str() {
            "enum" => {
                if d.values.is_empty() {
                    Val::I32(i as i32)
                } else {
                    Val::I32(d.values[i % d.values.len()].1)
                }
            }
            "typedef" => self.one(d.ty.as_ref().unwrap(), i, rich, depth),
            "union" => {
                if d.fields.is_empty() {
                    return Val::Struct(vec![]);
                }
                let f = &d.fields[i % d.fields.len()];
                if depth >= 3 && self.is_recursive_ref(&f.ty) {
                    let f = d.fields.iter().find(|f| !self.is_recursive_ref(&f.ty)).unwrap_or(f);
                    return Val::Struct(vec![(f.id, self.one(&f.ty, i, rich, depth + 1))]);
                }
                Val::Struct(vec![(f.id, self.one(&f.ty, i, rich, depth + 1))])
            }
            _ => {
                let mut fs = Vec::new();
                for (j, f) in d.fields.iter().enumerate() {
                    let present = f.required() || (rich && depth < 3) || (j == 0 && depth < 2 && !self.contains_ref(&f.ty));
                    if present {
                        fs.push((f.id, self.one(&f.ty, i + j, rich && depth < 2, depth + 1)));
                    }
                }
                Val::Struct(fs)
            }
        }
    }
    fn is_recursive_ref(&self, ty: &Ty) -> bool {
        self.contains_ref(ty)
    }
    fn contains_ref(&self, ty: &Ty) -> bool {
        match ty.t.as_str() {
            "list" | "set" => self.contains_ref(ty.e.as_ref().unwrap()),
            "map" => self.contains_ref(ty.k.as_ref().unwrap()) || self.contains_ref(ty.v.as_ref().unwrap()),
            "ref" => {
                let d = &self.doc.types[ty.name.as_ref().unwrap()];
                match d.kind.as_str() {
                    "struct" | "union" => true,
                    "typedef" => self.contains_ref(d.ty.as_ref().unwrap()),
                    _ => false,
                }
            }
            _ => false,
        }
    }

    /// all values a single field position is exercised with
    pub fn field_values(&self, ty: &Ty) -> Vec<Val> {
        match ty.t.as_str() {
            "list" | "set" | "map" => {
                let mut v = vec![self.empty_container(ty), self.one(ty, 0, false, 1), self.one(ty, 1, true, 1)];
                // every leaf alphabet member as the single element (lists only: keys need care)
                if ty.t == "list" {
                    let e = ty.e.as_ref().unwrap();
                    if !matches!(e.t.as_str(), "list" | "set" | "map" | "ref") {
                        for x in leaf_alphabet(&e.t, self.thorough) {
                            v.push(Val::List(self.doc.wire(e), vec![x.clone(), x]));
                        }
                        // 15 and 16 elements (compact size nibble boundary)
                        for n in [15usize, 16] {
                            v.push(Val::List(self.doc.wire(e), (0..n).map(|j| leaf_distinct(&e.t, j)).collect()));
                        }
                    }
                }
                if ty.t == "map" {
                    let (k, vt) = (ty.k.as_ref().unwrap(), ty.v.as_ref().unwrap());
                    if !matches!(vt.t.as_str(), "list" | "set" | "map" | "ref") && !matches!(k.t.as_str(), "list" | "set" | "map") {
                        for x in leaf_alphabet(&vt.t, self.thorough) {
                            v.push(Val::Map(self.doc.wire(k), self.doc.wire(vt), vec![(self.one(k, 0, false, 1), x)]));
                        }
                    }
                }
                v
            }
            "ref" => {
                let d = &self.doc.types[ty.name.as_ref().unwrap()];
                match d.kind.as_str() {
                    "enum" => {
                        let mut v: Vec<Val> = d.values.iter().map(|x| Val::I32(x.1)).collect();
                        v.extend([Val::I32(-1), Val::I32(i32::MAX), Val::I32(d.values.iter().map(|x| x.1).max().unwrap_or(0) + 1)]);
                        v
                    }
                    "typedef" => self.field_values(d.ty.as_ref().unwrap()),
                    "union" => (0..d.fields.len().max(1)).map(|i| self.one_def(d, i, true, 1)).collect(),
                    _ => vec![self.one_def(d, 0, false, 1), self.one_def(d, 1, true, 1)],
                }
            }
            leaf => leaf_alphabet(leaf, self.thorough),
        }
    }
    fn empty_container(&self, ty: &Ty) -> Val {
        match ty.t.as_str() {
            "list" => Val::List(self.doc.wire(ty.e.as_ref().unwrap()), vec![]),
            "set" => Val::Set(self.doc.wire(ty.e.as_ref().unwrap()), vec![]),
            _ => Val::Map(self.doc.wire(ty.k.as_ref().unwrap()), self.doc.wire(ty.v.as_ref().unwrap()), vec![]),
        }
    }

    /// The value set of one declared type (DESIGN §3 C02): minimal value, each field alone over
    /// its values, all fields present, every adjacent pair present; unions: each variant over its
    /// values; enums: declared and unknown numbers; typedefs: the underlying type's values.
    pub fn values(&self, d: &TypeDef) -> Vec<Val> {
        match d.kind.as_str() {
            "enum" => self.field_values(&Ty { t: "ref".into(), e: None, k: None, v: None, name: Some(d.name.clone()) }),
            "typedef" => self.field_values(d.ty.as_ref().unwrap()),
            "union" => {
                let mut out = Vec::new();
                for f in &d.fields {
                    for x in self.field_values(&f.ty) {
                        out.push(Val::Struct(vec![(f.id, x)]));
                    }
                }
                if d.void_ok {
                    out.push(Val::Struct(vec![]));
                }
                out
            }
            _ => {
                let req: Vec<(i16, Val)> = d.fields.iter().enumerate().filter(|(_, f)| f.required()).map(|(j, f)| (f.id, self.one(&f.ty, j, false, 1))).collect();
                let with = |extra: Vec<(i16, Val)>| -> Val {
                    // fields in declaration order
                    let mut fs = Vec::new();
                    for f in &d.fields {
                        if let Some(x) = extra.iter().find(|x| x.0 == f.id) {
                            fs.push(x.clone());
                        } else if let Some(x) = req.iter().find(|x| x.0 == f.id) {
                            fs.push(x.clone());
                        }
                    }
                    Val::Struct(fs)
                };
                let mut out = vec![with(vec![])];
                for f in &d.fields {
                    for x in self.field_values(&f.ty) {
                        out.push(with(vec![(f.id, x)]));
                    }
                }
                // all present
                out.push(with(d.fields.iter().enumerate().map(|(j, f)| (f.id, self.one(&f.ty, j, true, 1))).collect()));
                out.push(with(d.fields.iter().enumerate().map(|(j, f)| (f.id, self.one(&f.ty, j + 1, false, 1))).collect()));
                // adjacent pairs
                for w in d.fields.windows(2) {
                    out.push(with(vec![(w[0].id, self.one(&w[0].ty, 0, false, 1)), (w[1].id, self.one(&w[1].ty, 1, false, 1))]));
                }
                out
            }
        }
    }

    /// expected value after decode+encode: absent fields with an IDL default come back holding it
    pub fn fill_defaults(&self, d: &TypeDef, v: &Val) -> Val {
        match (d.kind.as_str(), v) {
            ("struct", Val::Struct(fs)) => {
                let mut out = Vec::new();
                for f in &d.fields {
                    match fs.iter().find(|x| x.0 == f.id) {
                        Some((_, x)) => out.push((f.id, self.fill_ty(&f.ty, x))),
                        None => {
                            if let Some(dv) = &f.default {
                                out.push((f.id, dv.clone()));
                            }
                        }
                    }
                }
                // fields the schema does not know (writer-side extras) are kept as they are
                for x in fs {
                    if !d.fields.iter().any(|f| f.id == x.0) {
                        out.push(x.clone());
                    }
                }
                Val::Struct(out)
            }
            ("union", Val::Struct(fs)) => Val::Struct(
                fs.iter()
                    .map(|(id, x)| match d.fields.iter().find(|f| f.id == *id) {
                        Some(f) => (*id, self.fill_ty(&f.ty, x)),
                        None => (*id, x.clone()),
                    })
                    .collect(),
            ),
            ("typedef", x) => self.fill_ty(d.ty.as_ref().unwrap(), x),
            (_, x) => x.clone(),
        }
    }
    pub fn fill_ty(&self, ty: &Ty, v: &Val) -> Val {
        match (ty.t.as_str(), v) {
            ("list", Val::List(t, e)) => Val::List(*t, e.iter().map(|x| self.fill_ty(ty.e.as_ref().unwrap(), x)).collect()),
            ("set", Val::Set(t, e)) => Val::Set(*t, e.iter().map(|x| self.fill_ty(ty.e.as_ref().unwrap(), x)).collect()),
            ("map", Val::Map(kt, vt, e)) => Val::Map(
                *kt,
                *vt,
                e.iter().map(|(a, b)| (self.fill_ty(ty.k.as_ref().unwrap(), a), self.fill_ty(ty.v.as_ref().unwrap(), b))).collect(),
            ),
            ("ref", x) => self.fill_defaults(&self.doc.types[ty.name.as_ref().unwrap()], x),
            (_, x) => x.clone(),
        }
    }
}

/// canonical form for comparison: struct fields by id (stable), set elements and map entries by
/// their reference binary encoding; empty-map key/value types normalised.
pub fn canon(v: &Val) -> Val {
    match v {
        Val::Struct(fs) => {
            let mut o: Vec<(i16, Val)> = fs.iter().map(|(i, x)| (*i, canon(x))).collect();
            o.sort_by_key(|x| x.0);
            Val::Struct(o)
        }
        Val::List(t, e) => Val::List(*t, e.iter().map(canon).collect()),
        Val::Set(t, e) => {
            let mut o: Vec<Val> = e.iter().map(canon).collect();
            o.sort_by_key(|x| rc::encode(Proto::Binary, x));
            Val::Set(*t, o)
        }
        Val::Map(k, vt, e) => {
            if e.is_empty() {
                return Val::Map(T::I32, T::I32, vec![]);
            }
            let mut o: Vec<(Val, Val)> = e.iter().map(|(a, b)| (canon(a), canon(b))).collect();
            o.sort_by_key(|x| (rc::encode(Proto::Binary, &x.0), rc::encode(Proto::Binary, &x.1)));
            Val::Map(*k, *vt, o)
        }
        x => x.clone(),
    }
}

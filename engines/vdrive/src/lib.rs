//! Shared driving layer: value interpreter over pilota's protocol objects, protocol dispatch
//! macros, scripted AsyncRead + executor.
pub mod aio;
pub mod drive;

//! Scripted AsyncRead + single-thread executor: every answer of the stream is a choice point.

use std::future::Future;
use std::pin::Pin;
use std::sync::atomic::{AtomicBool, AtomicU64, AtomicUsize, Ordering::SeqCst};
use std::sync::Arc;
use std::task::{Context, Poll, RawWaker, RawWakerVTable, Waker};
use tokio::io::{AsyncRead, ReadBuf};
use vcore::explore::Ctx;

#[derive(Clone, Copy, PartialEq, Eq, Debug)]
pub enum Mode {
    /// deliver everything requested
    All,
    /// one byte per poll
    OneByte,
    /// Pending before every delivery
    PendingEvery,
    /// every poll is a choice point {all, 1 byte, Pending}
    Explore,
}

#[derive(Default)]
pub struct Shared {
    pub pos: AtomicUsize,
    pub polls: AtomicU64,
    pub pending_flag: AtomicBool,
    pub pendings: AtomicU64,
    pub max_request: AtomicUsize,
}

pub struct Script {
    data: Vec<u8>,
    pos: usize,
    mode: Mode,
    ctx: *mut Ctx,
    last_pending: bool,
    pub shared: Arc<Shared>,
    /// (offset, answer, requested) log for state/transition accounting
    pub log: Arc<std::sync::Mutex<Vec<(u32, u8, u32)>>>,
}

unsafe impl Send for Script {}

impl Script {
    pub fn new(data: Vec<u8>, mode: Mode, ctx: *mut Ctx) -> (Script, Arc<Shared>) {
        let shared = Arc::new(Shared::default());
        (
            Script {
                data,
                pos: 0,
                mode,
                ctx,
                last_pending: false,
                shared: shared.clone(),
                log: Arc::new(std::sync::Mutex::new(Vec::new())),
            },
            shared,
        )
    }
}

impl AsyncRead for Script {
    fn poll_read(self: Pin<&mut Self>, cx: &mut Context<'_>, buf: &mut ReadBuf<'_>) -> Poll<std::io::Result<()>> {
        let this = self.get_mut();
        this.shared.polls.fetch_add(1, SeqCst);
        let want = buf.remaining();
        this.shared.max_request.fetch_max(want, SeqCst);
        let left = this.data.len() - this.pos;
        if want == 0 || left == 0 {
            return Poll::Ready(Ok(())); // EOF (or empty request)
        }
        let ans = match this.mode {
            Mode::All => 0,
            Mode::OneByte => 1,
            Mode::PendingEvery => {
                if this.last_pending {
                    0
                } else {
                    2
                }
            }
            Mode::Explore => {
                // options: deliver all; deliver one byte (only if that differs); Pending (never
                // twice in a row: keeps the schedule space finite)
                let mut opts = [0u8; 3];
                let mut n = 1;
                if want.min(left) > 1 {
                    opts[n] = 1;
                    n += 1;
                }
                if !this.last_pending {
                    opts[n] = 2;
                    n += 1;
                }
                let c = unsafe { (*this.ctx).choose(n) };
                opts[c] as usize
            }
        };
        this.log.lock().unwrap().push((this.pos as u32, ans as u8, want.min(65535) as u32));
        let n = match ans {
            0 => want.min(left),
            1 => 1,
            _ => {
                this.last_pending = true;
                this.shared.pending_flag.store(true, SeqCst);
                this.shared.pendings.fetch_add(1, SeqCst);
                cx.waker().wake_by_ref();
                return Poll::Pending;
            }
        };
        this.last_pending = false;
        buf.put_slice(&this.data[this.pos..this.pos + n]);
        this.pos += n;
        this.shared.pos.store(this.pos, SeqCst);
        Poll::Ready(Ok(()))
    }
}

fn noop_raw() -> RawWaker {
    fn clone(_: *const ()) -> RawWaker {
        noop_raw()
    }
    fn noop(_: *const ()) {}
    static VT: RawWakerVTable = RawWakerVTable::new(clone, noop, noop, noop);
    RawWaker::new(std::ptr::null(), &VT)
}

#[derive(Debug)]
pub enum ExecErr {
    /// the future returned Pending although the stream did not
    SpuriousPending,
    Livelock,
}

pub fn block_on<F: Future>(f: F, shared: &Shared) -> Result<F::Output, ExecErr> {
    let waker = unsafe { Waker::from_raw(noop_raw()) };
    let mut cx = Context::from_waker(&waker);
    let mut f = Box::pin(f);
    let mut iters = 0u64;
    loop {
        shared.pending_flag.store(false, SeqCst);
        match f.as_mut().poll(&mut cx) {
            Poll::Ready(x) => return Ok(x),
            Poll::Pending => {
                if !shared.pending_flag.swap(false, SeqCst) {
                    return Err(ExecErr::SpuriousPending);
                }
                iters += 1;
                if iters > 10_000_000 {
                    return Err(ExecErr::Livelock);
                }
            }
        }
    }
}

//! Value interpreter: drives pilota's primitive protocol API from a dynamic `Val`, the way
//! generated code does (same call order).

use bytes::{Bytes, BytesMut};
use faststr::FastStr;
use linkedbytes::LinkedBytes;
use pilota::thrift::{
    binary, binary_le, binary_unsafe, compact, new_protocol_exception, ProtocolExceptionKind,
    TAsyncInputProtocol, TInputProtocol, TLengthProtocol, TListIdentifier, TMapIdentifier,
    TOutputProtocol, TSetIdentifier, TStructIdentifier, TType, ThriftException,
};
use std::collections::BTreeSet;
use std::future::Future;
use std::pin::Pin;
use vcore::refcodec::Proto;
use vcore::val::{Val, T};

pub static IDENT: TStructIdentifier = TStructIdentifier { name: "S" };

pub fn tt(t: T) -> TType {
    match t {
        T::Bool => TType::Bool,
        T::I8 => TType::I8,
        T::I16 => TType::I16,
        T::I32 => TType::I32,
        T::I64 => TType::I64,
        T::Double => TType::Double,
        T::Bin => TType::Binary,
        T::Uuid => TType::Uuid,
        T::Struct => TType::Struct,
        T::List => TType::List,
        T::Set => TType::Set,
        T::Map => TType::Map,
    }
}

pub fn t_of(t: TType) -> Option<T> {
    Some(match t {
        TType::Bool => T::Bool,
        TType::I8 => T::I8,
        TType::I16 => T::I16,
        TType::I32 => T::I32,
        TType::I64 => T::I64,
        TType::Double => T::Double,
        TType::Binary => T::Bin,
        TType::Uuid => T::Uuid,
        TType::Struct => T::Struct,
        TType::List => T::List,
        TType::Set => T::Set,
        TType::Map => T::Map,
        TType::Stop | TType::Void => return None,
    })
}

#[derive(Clone, Copy, Debug, PartialEq, Eq, Hash)]
pub enum Prot {
    Binary,
    BinaryLe,
    Compact,
    Unsafe,
}

pub const ALL_PROT: [Prot; 4] = [Prot::Binary, Prot::BinaryLe, Prot::Compact, Prot::Unsafe];

impl Prot {
    pub fn name(self) -> &'static str {
        match self {
            Prot::Binary => "binary",
            Prot::BinaryLe => "binary_le",
            Prot::Compact => "compact",
            Prot::Unsafe => "unchecked",
        }
    }
    /// wire format
    pub fn wire(self) -> Proto {
        match self {
            Prot::Binary | Prot::Unsafe => Proto::Binary,
            Prot::BinaryLe => Proto::BinaryLe,
            Prot::Compact => Proto::Compact,
        }
    }
    pub fn from_name(s: &str) -> Prot {
        match s {
            "binary" => Prot::Binary,
            "binary_le" => Prot::BinaryLe,
            "compact" => Prot::Compact,
            "unchecked" => Prot::Unsafe,
            _ => panic!("MACHINERY: unknown protocol {}", s),
        }
    }
}

#[derive(Clone, Copy, Debug, PartialEq, Eq, Hash)]
pub enum BufKind {
    BytesMut,
    Linked,
    LinkedZc,
}
pub const ALL_BUF: [BufKind; 3] = [BufKind::BytesMut, BufKind::Linked, BufKind::LinkedZc];
impl BufKind {
    pub fn name(self) -> &'static str {
        match self {
            BufKind::BytesMut => "bytesmut",
            BufKind::Linked => "linked",
            BufKind::LinkedZc => "linked-zc",
        }
    }
    pub fn from_name(s: &str) -> BufKind {
        match s {
            "bytesmut" => BufKind::BytesMut,
            "linked" => BufKind::Linked,
            "linked-zc" => BufKind::LinkedZc,
            _ => panic!("MACHINERY: unknown buffer kind {}", s),
        }
    }
}

/// Which of the four binary/string APIs is used for `Bin` leaves.
#[derive(Clone, Copy, Debug, PartialEq, Eq, Hash)]
pub enum BinApi {
    Bytes,
    Str,
    FastStr,
    Vec,
}
pub const ALL_API: [BinApi; 4] = [BinApi::Bytes, BinApi::Str, BinApi::FastStr, BinApi::Vec];
impl BinApi {
    pub fn name(self) -> &'static str {
        match self {
            BinApi::Bytes => "bytes",
            BinApi::Str => "string",
            BinApi::FastStr => "faststr",
            BinApi::Vec => "bytes_vec",
        }
    }
    pub fn from_name(s: &str) -> BinApi {
        match s {
            "bytes" => BinApi::Bytes,
            "string" => BinApi::Str,
            "faststr" => BinApi::FastStr,
            "bytes_vec" => BinApi::Vec,
            _ => panic!("MACHINERY: unknown api {}", s),
        }
    }
}

// ------------------------------------------------------------------------------------------
// abstract-state tracker (reported as states / transitions of the codec objects driven)

#[derive(Default)]
pub struct Tracker {
    pub states: BTreeSet<u64>,
    pub transitions: BTreeSet<u64>,
    stack: Vec<u8>,
    last_op: u8,
    pub enabled: bool,
}

pub mod op {
    pub const BOOL: u8 = 1;
    pub const I8: u8 = 2;
    pub const I16: u8 = 3;
    pub const I32: u8 = 4;
    pub const I64: u8 = 5;
    pub const DOUBLE: u8 = 6;
    pub const BIN: u8 = 7;
    pub const UUID: u8 = 8;
    pub const STRUCT_BEGIN: u8 = 9;
    pub const STRUCT_END: u8 = 10;
    pub const FIELD_BEGIN: u8 = 11;
    pub const FIELD_END: u8 = 12;
    pub const FIELD_STOP: u8 = 13;
    pub const LIST_BEGIN: u8 = 14;
    pub const LIST_END: u8 = 15;
    pub const SET_BEGIN: u8 = 16;
    pub const SET_END: u8 = 17;
    pub const MAP_BEGIN: u8 = 18;
    pub const MAP_END: u8 = 19;
    pub const SKIP: u8 = 20;
}

impl Tracker {
    pub fn new() -> Tracker {
        Tracker { enabled: true, ..Default::default() }
    }
    /// aux: for field begin: (delta class << 4) | type; for others a small discriminator
    #[inline]
    pub fn op(&mut self, o: u8, aux: u8) {
        if !self.enabled {
            return;
        }
        let depth = self.stack.len().min(3) as u64;
        let kind = *self.stack.last().unwrap_or(&0) as u64;
        let st = depth | (kind << 4) | ((self.last_op as u64) << 8);
        self.states.insert(st);
        self.transitions.insert(st | ((o as u64) << 16) | ((aux as u64) << 24));
        self.last_op = o;
    }
    #[inline]
    pub fn push(&mut self, kind: u8) {
        self.stack.push(kind);
    }
    #[inline]
    pub fn pop(&mut self) {
        self.stack.pop();
    }
    pub fn reset_pos(&mut self) {
        self.stack.clear();
        self.last_op = 0;
    }
}

fn delta_class(last: i16, id: i16) -> u8 {
    let d = id as i32 - last as i32;
    if d <= 0 {
        0
    } else if d < 15 {
        1
    } else if d == 15 {
        2
    } else {
        3
    }
}

// ------------------------------------------------------------------------------------------
// write

pub struct WCtx<'a> {
    pub api: BinApi,
    pub tr: &'a mut Tracker,
    last_ids: Vec<i16>,
}

impl<'a> WCtx<'a> {
    pub fn new(api: BinApi, tr: &'a mut Tracker) -> Self {
        WCtx { api, tr, last_ids: vec![] }
    }
}

pub fn write_val<P: TOutputProtocol>(p: &mut P, v: &Val, c: &mut WCtx) -> Result<(), ThriftException> {
    match v {
        Val::Bool(b) => {
            c.tr.op(op::BOOL, *b as u8);
            p.write_bool(*b)
        }
        Val::I8(x) => {
            c.tr.op(op::I8, 0);
            p.write_i8(*x)
        }
        Val::I16(x) => {
            c.tr.op(op::I16, 0);
            p.write_i16(*x)
        }
        Val::I32(x) => {
            c.tr.op(op::I32, 0);
            p.write_i32(*x)
        }
        Val::I64(x) => {
            c.tr.op(op::I64, 0);
            p.write_i64(*x)
        }
        Val::Double(bits) => {
            c.tr.op(op::DOUBLE, 0);
            p.write_double(f64::from_bits(*bits))
        }
        Val::Bin(b) => {
            c.tr.op(op::BIN, (c.api as u8) | if b.len() >= 4096 { 8 } else { 0 });
            match c.api {
                BinApi::Bytes => p.write_bytes(Bytes::from(b.clone())),
                BinApi::Str => p.write_string(unsafe { std::str::from_utf8_unchecked(b) }),
                BinApi::FastStr => {
                    p.write_faststr(unsafe { FastStr::from_bytes_unchecked(Bytes::from(b.clone())) })
                }
                BinApi::Vec => p.write_bytes_vec(b),
            }
        }
        Val::Uuid(u) => {
            c.tr.op(op::UUID, 0);
            p.write_uuid(*u)
        }
        Val::Struct(fields) => {
            c.tr.op(op::STRUCT_BEGIN, 0);
            p.write_struct_begin(&IDENT)?;
            c.tr.push(1);
            c.last_ids.push(0);
            for (id, fv) in fields {
                let last = *c.last_ids.last().unwrap();
                c.tr.op(op::FIELD_BEGIN, (delta_class(last, *id) << 4) | (fv.ty() as u8 & 0x0f));
                *c.last_ids.last_mut().unwrap() = *id;
                p.write_field_begin(tt(fv.ty()), *id)?;
                write_val(p, fv, c)?;
                c.tr.op(op::FIELD_END, 0);
                p.write_field_end()?;
            }
            c.tr.op(op::FIELD_STOP, 0);
            p.write_field_stop()?;
            c.last_ids.pop();
            c.tr.pop();
            c.tr.op(op::STRUCT_END, 0);
            p.write_struct_end()
        }
        Val::List(t, e) => {
            c.tr.op(op::LIST_BEGIN, size_class(e.len()));
            p.write_list_begin(TListIdentifier { element_type: tt(*t), size: e.len() })?;
            c.tr.push(2);
            for x in e {
                write_val(p, x, c)?;
            }
            c.tr.pop();
            c.tr.op(op::LIST_END, 0);
            p.write_list_end()
        }
        Val::Set(t, e) => {
            c.tr.op(op::SET_BEGIN, size_class(e.len()));
            p.write_set_begin(TSetIdentifier { element_type: tt(*t), size: e.len() })?;
            c.tr.push(3);
            for x in e {
                write_val(p, x, c)?;
            }
            c.tr.pop();
            c.tr.op(op::SET_END, 0);
            p.write_set_end()
        }
        Val::Map(k, vt, e) => {
            c.tr.op(op::MAP_BEGIN, size_class(e.len()));
            p.write_map_begin(TMapIdentifier { key_type: tt(*k), value_type: tt(*vt), size: e.len() })?;
            c.tr.push(4);
            for (a, b) in e {
                write_val(p, a, c)?;
                write_val(p, b, c)?;
            }
            c.tr.pop();
            c.tr.op(op::MAP_END, 0);
            p.write_map_end()
        }
    }
}

fn size_class(n: usize) -> u8 {
    match n {
        0 => 0,
        1..=14 => 1,
        15 => 2,
        _ => 3,
    }
}

// ------------------------------------------------------------------------------------------
// length (mirrors the order generated `size()` uses)

pub fn len_val<P: TLengthProtocol>(p: &mut P, v: &Val, api: BinApi) -> usize {
    match v {
        Val::Bool(b) => p.bool_len(*b),
        Val::I8(x) => p.i8_len(*x),
        Val::I16(x) => p.i16_len(*x),
        Val::I32(x) => p.i32_len(*x),
        Val::I64(x) => p.i64_len(*x),
        Val::Double(bits) => p.double_len(f64::from_bits(*bits)),
        Val::Bin(b) => match api {
            BinApi::Bytes => p.bytes_len(b),
            BinApi::Str => p.string_len(unsafe { std::str::from_utf8_unchecked(b) }),
            BinApi::FastStr => {
                p.faststr_len(&unsafe { FastStr::from_bytes_unchecked(Bytes::from(b.clone())) })
            }
            BinApi::Vec => p.bytes_vec_len(b),
        },
        Val::Uuid(u) => p.uuid_len(*u),
        Val::Struct(fields) => {
            let mut n = p.struct_begin_len(&IDENT);
            for (id, fv) in fields {
                n += p.field_begin_len(tt(fv.ty()), Some(*id));
                n += len_val(p, fv, api);
                n += p.field_end_len();
            }
            n += p.field_stop_len();
            n += p.struct_end_len();
            n
        }
        Val::List(t, e) => {
            let mut n = p.list_begin_len(TListIdentifier { element_type: tt(*t), size: e.len() });
            for x in e {
                n += len_val(p, x, api);
            }
            n + p.list_end_len()
        }
        Val::Set(t, e) => {
            let mut n = p.set_begin_len(TSetIdentifier { element_type: tt(*t), size: e.len() });
            for x in e {
                n += len_val(p, x, api);
            }
            n + p.set_end_len()
        }
        Val::Map(k, vt, e) => {
            let mut n =
                p.map_begin_len(TMapIdentifier { key_type: tt(*k), value_type: tt(*vt), size: e.len() });
            for (a, b) in e {
                n += len_val(p, a, api);
                n += len_val(p, b, api);
            }
            n + p.map_end_len()
        }
    }
}

// ------------------------------------------------------------------------------------------
// read

pub fn harness_err(msg: &str) -> ThriftException {
    new_protocol_exception(ProtocolExceptionKind::NotImplemented, format!("harness: {}", msg))
}

pub struct RCtx<'a> {
    pub api: BinApi,
    /// also issue the `*_len` calls generated sync decoders make on the *input* protocol
    pub genlike: bool,
    pub tr: &'a mut Tracker,
    /// hard cap on elements materialised per container (fault inputs carry wire counts)
    pub max_nodes: usize,
    pub nodes: usize,
}

impl<'a> RCtx<'a> {
    pub fn new(api: BinApi, genlike: bool, tr: &'a mut Tracker) -> Self {
        RCtx { api, genlike, tr, max_nodes: 1 << 22, nodes: 0 }
    }
}

pub fn read_val<P: TInputProtocol>(p: &mut P, t: T, c: &mut RCtx, depth: usize) -> Result<Val, ThriftException> {
    c.nodes += 1;
    if c.nodes > c.max_nodes {
        return Err(harness_err("node cap"));
    }
    if depth > 300 {
        return Err(harness_err("depth cap"));
    }
    Ok(match t {
        T::Bool => {
            c.tr.op(op::BOOL, 0);
            Val::Bool(p.read_bool()?)
        }
        T::I8 => {
            c.tr.op(op::I8, 0);
            Val::I8(p.read_i8()?)
        }
        T::I16 => {
            c.tr.op(op::I16, 0);
            Val::I16(p.read_i16()?)
        }
        T::I32 => {
            c.tr.op(op::I32, 0);
            Val::I32(p.read_i32()?)
        }
        T::I64 => {
            c.tr.op(op::I64, 0);
            Val::I64(p.read_i64()?)
        }
        T::Double => {
            c.tr.op(op::DOUBLE, 0);
            Val::Double(p.read_double()?.to_bits())
        }
        T::Bin => {
            c.tr.op(op::BIN, c.api as u8);
            Val::Bin(match c.api {
                BinApi::Bytes => p.read_bytes()?.to_vec(),
                BinApi::Str => p.read_string()?.into_bytes(),
                BinApi::FastStr => p.read_faststr()?.as_bytes().to_vec(),
                BinApi::Vec => p.read_bytes_vec()?,
            })
        }
        T::Uuid => {
            c.tr.op(op::UUID, 0);
            Val::Uuid(p.read_uuid()?)
        }
        T::Struct => {
            c.tr.op(op::STRUCT_BEGIN, 0);
            p.read_struct_begin()?;
            c.tr.push(1);
            let mut fields = Vec::new();
            loop {
                let f = p.read_field_begin()?;
                if f.field_type == TType::Stop {
                    c.tr.op(op::FIELD_STOP, 0);
                    if c.genlike {
                        p.field_stop_len();
                    }
                    break;
                }
                if c.genlike {
                    p.field_begin_len(f.field_type, f.id);
                }
                let ft = t_of(f.field_type).ok_or_else(|| harness_err("void field"))?;
                c.tr.op(op::FIELD_BEGIN, ft as u8 & 0x0f);
                let v = read_val(p, ft, c, depth + 1)?;
                c.tr.op(op::FIELD_END, 0);
                p.read_field_end()?;
                if c.genlike {
                    p.field_end_len();
                }
                fields.push((f.id.unwrap_or(0), v));
            }
            c.tr.pop();
            c.tr.op(op::STRUCT_END, 0);
            p.read_struct_end()?;
            Val::Struct(fields)
        }
        T::List => {
            let id = p.read_list_begin()?;
            c.tr.op(op::LIST_BEGIN, size_class(id.size));
            let et = t_of(id.element_type).ok_or_else(|| harness_err("void elem"))?;
            c.tr.push(2);
            let mut e = Vec::new();
            for _ in 0..id.size {
                e.push(read_val(p, et, c, depth + 1)?);
            }
            c.tr.pop();
            c.tr.op(op::LIST_END, 0);
            p.read_list_end()?;
            Val::List(et, e)
        }
        T::Set => {
            let id = p.read_set_begin()?;
            c.tr.op(op::SET_BEGIN, size_class(id.size));
            let et = t_of(id.element_type).ok_or_else(|| harness_err("void elem"))?;
            c.tr.push(3);
            let mut e = Vec::new();
            for _ in 0..id.size {
                e.push(read_val(p, et, c, depth + 1)?);
            }
            c.tr.pop();
            c.tr.op(op::SET_END, 0);
            p.read_set_end()?;
            Val::Set(et, e)
        }
        T::Map => {
            let id = p.read_map_begin()?;
            c.tr.op(op::MAP_BEGIN, size_class(id.size));
            if id.size == 0 {
                c.tr.op(op::MAP_END, 0);
                p.read_map_end()?;
                // key/value types of an empty compact map are not on the wire (pilota reports
                // Stop/Stop); compare modulo `norm_empty_maps`
                let kt = t_of(id.key_type).unwrap_or(T::I32);
                let vt = t_of(id.value_type).unwrap_or(T::I32);
                return Ok(Val::Map(kt, vt, vec![]));
            }
            let kt = t_of(id.key_type).ok_or_else(|| harness_err("void key"))?;
            let vt = t_of(id.value_type).ok_or_else(|| harness_err("void val"))?;
            c.tr.push(4);
            let mut e = Vec::new();
            for _ in 0..id.size {
                let k = read_val(p, kt, c, depth + 1)?;
                let v = read_val(p, vt, c, depth + 1)?;
                e.push((k, v));
            }
            c.tr.pop();
            c.tr.op(op::MAP_END, 0);
            p.read_map_end()?;
            Val::Map(kt, vt, e)
        }
    })
}

pub fn read_val_async<'a, P: TAsyncInputProtocol>(
    p: &'a mut P,
    t: T,
    api: BinApi,
    depth: usize,
) -> Pin<Box<dyn Future<Output = Result<Val, ThriftException>> + Send + 'a>> {
    Box::pin(async move {
        if depth > 300 {
            return Err(harness_err("depth cap"));
        }
        Ok(match t {
            T::Bool => Val::Bool(p.read_bool().await?),
            T::I8 => Val::I8(p.read_i8().await?),
            T::I16 => Val::I16(p.read_i16().await?),
            T::I32 => Val::I32(p.read_i32().await?),
            T::I64 => Val::I64(p.read_i64().await?),
            T::Double => Val::Double(p.read_double().await?.to_bits()),
            T::Bin => Val::Bin(match api {
                BinApi::Bytes => p.read_bytes().await?.to_vec(),
                BinApi::Str => p.read_string().await?.into_bytes(),
                BinApi::FastStr => p.read_faststr().await?.as_bytes().to_vec(),
                BinApi::Vec => p.read_bytes_vec().await?,
            }),
            T::Uuid => Val::Uuid(p.read_uuid().await?),
            T::Struct => {
                p.read_struct_begin().await?;
                let mut fields = Vec::new();
                loop {
                    let f = p.read_field_begin().await?;
                    if f.field_type == TType::Stop {
                        break;
                    }
                    let ft = t_of(f.field_type).ok_or_else(|| harness_err("void field"))?;
                    let v = read_val_async(p, ft, api, depth + 1).await?;
                    p.read_field_end().await?;
                    fields.push((f.id.unwrap_or(0), v));
                }
                p.read_struct_end().await?;
                Val::Struct(fields)
            }
            T::List => {
                let id = p.read_list_begin().await?;
                let et = t_of(id.element_type).ok_or_else(|| harness_err("void elem"))?;
                let mut e = Vec::new();
                for _ in 0..id.size {
                    e.push(read_val_async(p, et, api, depth + 1).await?);
                }
                p.read_list_end().await?;
                Val::List(et, e)
            }
            T::Set => {
                let id = p.read_set_begin().await?;
                let et = t_of(id.element_type).ok_or_else(|| harness_err("void elem"))?;
                let mut e = Vec::new();
                for _ in 0..id.size {
                    e.push(read_val_async(p, et, api, depth + 1).await?);
                }
                p.read_set_end().await?;
                Val::Set(et, e)
            }
            T::Map => {
                let id = p.read_map_begin().await?;
                if id.size == 0 {
                    p.read_map_end().await?;
                    let kt = t_of(id.key_type).unwrap_or(T::I32);
                    let vt = t_of(id.value_type).unwrap_or(T::I32);
                    return Ok(Val::Map(kt, vt, vec![]));
                }
                let kt = t_of(id.key_type).ok_or_else(|| harness_err("void key"))?;
                let vt = t_of(id.value_type).ok_or_else(|| harness_err("void val"))?;
                let mut e = Vec::new();
                for _ in 0..id.size {
                    let k = read_val_async(p, kt, api, depth + 1).await?;
                    let v = read_val_async(p, vt, api, depth + 1).await?;
                    e.push((k, v));
                }
                p.read_map_end().await?;
                Val::Map(kt, vt, e)
            }
        })
    })
}

// ------------------------------------------------------------------------------------------
// concrete protocol instantiation

pub fn flat(lb: &LinkedBytes) -> Vec<u8> {
    let mut v = Vec::new();
    for n in lb.iter_list() {
        v.extend_from_slice(n.as_ref());
    }
    v.extend_from_slice(lb.bytes());
    v
}

pub fn node_count(lb: &LinkedBytes) -> usize {
    lb.iter_list().count()
}

pub struct EncOut {
    pub bytes: Vec<u8>,
    /// zero-copy bytes accounted by the protocol
    pub zc_len: usize,
    /// number of list nodes in the LinkedBytes (0 for BytesMut)
    pub nodes: usize,
    /// for the unchecked writer: sentinel intact (spare capacity untouched)
    pub sentinel_ok: bool,
    /// for the unchecked writer: bytes the protocol accounted for (index + advanced)
    pub accounted: usize,
}

pub const SENTINEL: u8 = 0xA5;
pub const SLACK: usize = 64;

/// size of all values as computed by pilota's own TLengthProtocol for `prot`
pub fn pilota_size(prot: Prot, vals: &[&Val], api: BinApi) -> usize {
    pilota_size_zc(prot, vals, api, false)
}

/// `zc`: the zero-copy flag the length protocol is constructed with (callers size and write with
/// the same protocol object, so it is the writer's flag)
pub fn pilota_size_zc(prot: Prot, vals: &[&Val], api: BinApi, zc: bool) -> usize {
    match prot {
        Prot::Binary => {
            let mut p = binary::TBinaryProtocol::new((), zc);
            vals.iter().map(|v| len_val(&mut p, v, api)).sum()
        }
        Prot::BinaryLe => {
            let mut p = binary_le::TBinaryProtocol::new((), zc);
            vals.iter().map(|v| len_val(&mut p, v, api)).sum()
        }
        Prot::Compact => {
            let mut p = compact::TCompactOutputProtocol::new((), zc);
            vals.iter().map(|v| len_val(&mut p, v, api)).sum()
        }
        Prot::Unsafe => {
            let mut dummy: [u8; 0] = [];
            let s: &'static mut [u8] = unsafe { std::mem::transmute(&mut dummy[..]) };
            let mut p = unsafe { binary_unsafe::TBinaryUnsafeOutputProtocol::new((), s, zc) };
            vals.iter().map(|v| len_val(&mut p, v, api)).sum()
        }
    }
}

/// Encode all `vals` back to back through ONE protocol instance.
/// `window`: for the unchecked writer, the exact number of bytes the buffer is sized for
/// (the harness adds SLACK sentinel bytes behind it).
pub fn encode_vals(
    prot: Prot,
    buf: BufKind,
    vals: &[&Val],
    api: BinApi,
    tr: &mut Tracker,
    window: usize,
) -> Result<EncOut, ThriftException> {
    let mut c = WCtx::new(api, tr);
    macro_rules! run_bm {
        ($ctor:expr) => {{
            let mut bm = BytesMut::new();
            {
                let mut p = $ctor(&mut bm);
                for v in vals {
                    write_val(&mut p, v, &mut c)?;
                }
            }
            Ok(EncOut { bytes: bm.to_vec(), zc_len: 0, nodes: 0, sentinel_ok: true, accounted: bm.len() })
        }};
    }
    macro_rules! run_lb {
        ($ctor:expr) => {{
            let mut lb = LinkedBytes::new();
            let zc;
            {
                let mut p = $ctor(&mut lb);
                for v in vals {
                    write_val(&mut p, v, &mut c)?;
                }
                zc = p.zero_copy_len();
            }
            let b = flat(&lb);
            let n = b.len();
            Ok(EncOut { bytes: b, zc_len: zc, nodes: node_count(&lb), sentinel_ok: true, accounted: n })
        }};
    }
    let zc = buf == BufKind::LinkedZc;
    match (prot, buf) {
        (Prot::Binary, BufKind::BytesMut) => run_bm!(|b| binary::TBinaryProtocol::new(b, false)),
        (Prot::Binary, _) => run_lb!(|b| binary::TBinaryProtocol::new(b, zc)),
        (Prot::BinaryLe, BufKind::BytesMut) => run_bm!(|b| binary_le::TBinaryProtocol::new(b, false)),
        (Prot::BinaryLe, _) => run_lb!(|b| binary_le::TBinaryProtocol::new(b, zc)),
        (Prot::Compact, BufKind::BytesMut) => run_bm!(|b| compact::TCompactOutputProtocol::new(b, false)),
        (Prot::Compact, _) => run_lb!(|b| compact::TCompactOutputProtocol::new(b, zc)),
        (Prot::Unsafe, BufKind::BytesMut) => {
            let cap = window + SLACK;
            let mut bm = BytesMut::with_capacity(cap);
            bm.resize(cap, SENTINEL);
            let index;
            {
                let s: &'static mut [u8] =
                    unsafe { std::slice::from_raw_parts_mut(bm.as_mut_ptr(), cap) };
                let mut p = unsafe { binary_unsafe::TBinaryUnsafeOutputProtocol::new(&mut bm, s, false) };
                for v in vals {
                    write_val(&mut p, v, &mut c)?;
                }
                index = p.index();
            }
            let sentinel_ok = bm[window.min(cap)..].iter().all(|b| *b == SENTINEL);
            Ok(EncOut {
                bytes: bm[..index.min(cap)].to_vec(),
                zc_len: 0,
                nodes: 0,
                sentinel_ok,
                accounted: index,
            })
        }
        (Prot::Unsafe, _) => {
            let cap = window + SLACK;
            let mut lb = LinkedBytes::with_capacity(cap);
            // paint the spare capacity
            let base = lb.bytes_mut().as_mut_ptr();
            let real_cap = lb.bytes_mut().capacity();
            unsafe { std::ptr::write_bytes(base, SENTINEL, real_cap) };
            let index;
            let zcl;
            {
                let s: &'static mut [u8] = unsafe { std::slice::from_raw_parts_mut(base, real_cap) };
                let mut p = unsafe { binary_unsafe::TBinaryUnsafeOutputProtocol::new(&mut lb, s, zc) };
                for v in vals {
                    write_val(&mut p, v, &mut c)?;
                }
                index = p.index();
                zcl = p.zero_copy_len();
            }
            // commit what the protocol accounted for (what a caller such as volo does)
            unsafe {
                use bytes::BufMut;
                let spare = lb.bytes_mut().capacity() - lb.bytes_mut().len();
                lb.bytes_mut().advance_mut(index.min(spare));
            }
            let out = flat(&lb);
            // every byte of the original allocation beyond the inline bytes accounted for must
            // still be painted
            let inline_total = out.len() - zcl.min(out.len());
            let mut sentinel_ok = true;
            unsafe {
                let sl = std::slice::from_raw_parts(base, real_cap);
                if inline_total < real_cap {
                    sentinel_ok = sl[inline_total.max(window.min(real_cap))..].iter().all(|b| *b == SENTINEL);
                }
            }
            let accounted = out.len();
            Ok(EncOut { bytes: out, zc_len: zcl, nodes: node_count(&lb), sentinel_ok, accounted })
        }
    }
}

pub struct DecOut {
    pub vals: Vec<Result<Val, ThriftException>>,
    pub remaining: usize,
}

/// Decode `tys.len()` values back to back through ONE reader instance.
pub fn decode_vals(
    prot: Prot,
    input: Bytes,
    tys: &[T],
    api: BinApi,
    genlike: bool,
    tr: &mut Tracker,
) -> DecOut {
    let mut c = RCtx::new(api, genlike, tr);
    let mut b = input;
    let mut out = Vec::new();
    macro_rules! run {
        ($p:expr) => {{
            let mut p = $p;
            for t in tys {
                let r = read_val(&mut p, *t, &mut c, 0);
                let stop = r.is_err();
                out.push(r);
                if stop {
                    break;
                }
            }
        }};
    }
    let remaining;
    match prot {
        Prot::Binary => {
            run!(binary::TBinaryProtocol::new(&mut b, false));
            remaining = b.len();
        }
        Prot::BinaryLe => {
            run!(binary_le::TBinaryProtocol::new(&mut b, false));
            remaining = b.len();
        }
        Prot::Compact => {
            run!(compact::TCompactInputProtocol::new(&mut b));
            remaining = b.len();
        }
        Prot::Unsafe => {
            let total = b.len();
            let idx;
            {
                let mut p = unsafe { binary_unsafe::TBinaryUnsafeInputProtocol::new(&mut b) };
                for t in tys {
                    let r = read_val(&mut p, *t, &mut c, 0);
                    let stop = r.is_err();
                    out.push(r);
                    if stop {
                        break;
                    }
                }
                idx = p.index();
            }
            // consumed = bytes advanced out of the Bytes + index into the remaining window
            let consumed = (total - b.len()) + idx;
            remaining = total.wrapping_sub(consumed);
        }
    }
    DecOut { vals: out, remaining }
}

pub fn err_class(e: &ThriftException) -> String {
    match e {
        ThriftException::Application(_) => "application".into(),
        ThriftException::Protocol(p) => format!("protocol:{:?}", p.kind()),
        ThriftException::Transport(t) => format!("transport:{:?}", t.kind()),
    }
}

// ------------------------------------------------------------------------------------------
// dispatch macros over the concrete protocol types

/// `with_in!(prot, &mut bytes, p => expr)` — expr is evaluated with `p` bound to a fresh reader
#[macro_export]
macro_rules! with_in {
    ($prot:expr, $b:expr, $p:ident => $body:expr) => {
        match $prot {
            $crate::drive::Prot::Binary => {
                let mut $p = pilota::thrift::binary::TBinaryProtocol::new($b, false);
                $body
            }
            $crate::drive::Prot::BinaryLe => {
                let mut $p = pilota::thrift::binary_le::TBinaryProtocol::new($b, false);
                $body
            }
            $crate::drive::Prot::Compact => {
                let mut $p = pilota::thrift::compact::TCompactInputProtocol::new($b);
                $body
            }
            $crate::drive::Prot::Unsafe => {
                let mut $p = unsafe { pilota::thrift::binary_unsafe::TBinaryUnsafeInputProtocol::new($b) };
                $body
            }
        }
    };
}

/// `with_out!(prot, &mut bytesmut, window, p => expr)` — BytesMut-backed writer. For the unchecked
/// writer the BytesMut is resized to `window + SLACK` painted bytes first and truncated to
/// `index()` afterwards.
#[macro_export]
macro_rules! with_out {
    ($prot:expr, $b:expr, $window:expr, $p:ident => $body:expr) => {
        match $prot {
            $crate::drive::Prot::Binary => {
                let mut $p = pilota::thrift::binary::TBinaryProtocol::new($b, false);
                $body
            }
            $crate::drive::Prot::BinaryLe => {
                let mut $p = pilota::thrift::binary_le::TBinaryProtocol::new($b, false);
                $body
            }
            $crate::drive::Prot::Compact => {
                let mut $p = pilota::thrift::compact::TCompactOutputProtocol::new($b, false);
                $body
            }
            $crate::drive::Prot::Unsafe => {
                let bm: &mut bytes::BytesMut = $b;
                let cap = $window + $crate::drive::SLACK;
                bm.resize(cap, $crate::drive::SENTINEL);
                let s: &'static mut [u8] = unsafe { std::slice::from_raw_parts_mut(bm.as_mut_ptr(), cap) };
                let idx;
                let r = {
                    let mut $p =
                        unsafe { pilota::thrift::binary_unsafe::TBinaryUnsafeOutputProtocol::new(&mut *bm, s, false) };
                    let r = $body;
                    idx = $p.index();
                    r
                };
                bm.truncate(idx.min(cap));
                r
            }
        }
    };
}

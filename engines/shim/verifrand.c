/* LD_PRELOAD shim: makes the per-process hash seeds a function of VERIF_HASH_SEED.
 * std's RandomState and ahash both obtain their keys through getrandom(2), either via the libc
 * wrapper or via syscall(SYS_getrandom, ...). Both entry points are interposed and filled from a
 * splitmix64 stream seeded with VERIF_HASH_SEED. (ahash additionally mixes in addresses of
 * statics, hence the checks also run the generator under `setarch -R`.) */
#define _GNU_SOURCE
#include <dlfcn.h>
#include <stdarg.h>
#include <stdint.h>
#include <stdlib.h>
#include <string.h>
#include <sys/syscall.h>
#include <sys/types.h>
#include <unistd.h>

static uint64_t state;
static int inited;

static void init(void) {
    if (inited) return;
    inited = 1;
    const char *s = getenv("VERIF_HASH_SEED");
    state = s ? strtoull(s, 0, 10) : 0;
    state = state * 0x9E3779B97F4A7C15ull + 0x1234567ull;
}

static uint64_t next(void) {
    uint64_t z = (state += 0x9E3779B97F4A7C15ull);
    z = (z ^ (z >> 30)) * 0xBF58476D1CE4E5B9ull;
    z = (z ^ (z >> 27)) * 0x94D049BB133111EBull;
    return z ^ (z >> 31);
}

static ssize_t fill(void *buf, size_t len) {
    init();
    unsigned char *p = buf;
    size_t i = 0;
    while (i < len) {
        uint64_t v = next();
        size_t n = len - i < 8 ? len - i : 8;
        memcpy(p + i, &v, n);
        i += n;
    }
    return (ssize_t)len;
}

ssize_t getrandom(void *buf, size_t len, unsigned int flags) {
    (void)flags;
    return fill(buf, len);
}

int getentropy(void *buf, size_t len) {
    fill(buf, len);
    return 0;
}

long syscall(long number, ...) {
    static long (*real)(long, ...) = 0;
    va_list ap;
    va_start(ap, number);
    long a = va_arg(ap, long), b = va_arg(ap, long), c = va_arg(ap, long), d = va_arg(ap, long), e = va_arg(ap, long),
         f = va_arg(ap, long);
    va_end(ap);
    if (number == SYS_getrandom) return fill((void *)a, (size_t)b);
    if (!real) real = (long (*)(long, ...))dlsym(RTLD_NEXT, "syscall");
    return real(number, a, b, c, d, e, f);
}
